package cryptobyte

// Bounded stand-in (NOT proof): exhaustive differential test of the real readers against
// an independent reading of X.690 on every input of at most 3 bytes, plus structured
// long-form headers. It validates the transcription of the spec functions used by the
// contracts (der_ok, der_hdrlen, der_total, int_minimal, b128_*).

import (
	"testing"

	"github.com/zmap/zcrypto/cryptobyte/asn1"
)

// reference: X.690 8.1.2 (low tag form only), 8.1.3, 10.1
func refHeader(b []byte) (ok bool, hdr, total int) {
	if len(b) < 2 || b[0]&0x1f == 0x1f {
		return false, 0, 0
	}
	if b[1]&0x80 == 0 {
		hdr, total = 2, 2+int(b[1])
	} else {
		n := int(b[1] & 0x7f)
		if n == 0 || n > 4 || len(b) < 2+n {
			return false, 0, 0
		}
		v := 0
		for _, x := range b[2 : 2+n] {
			v = v<<8 | int(x)
		}
		if v < 128 || b[2] == 0 {
			return false, 0, 0
		}
		hdr, total = 2+n, 2+n+v
		if total >= 1<<32 {
			return false, 0, 0
		}
	}
	if total > len(b) {
		return false, 0, 0
	}
	return true, hdr, total
}

func checkOne(t *testing.T, in []byte) {
	s := String(append([]byte{}, in...))
	var out String
	var tag asn1.Tag
	got := s.ReadAnyASN1(&out, &tag)
	ok, hdr, total := refHeader(in)
	if got != ok {
		t.Fatalf("ReadAnyASN1(% x) = %v, reference %v", in, got, ok)
	}
	if ok {
		if len(out) != total-hdr || len(s) != len(in)-total || uint8(tag) != in[0] {
			t.Fatalf("ReadAnyASN1(% x): out %d rest %d tag %x, reference hdr %d total %d", in, len(out), len(s), tag, hdr, total)
		}
	} else if len(s) != len(in) {
		t.Fatalf("ReadAnyASN1(% x) failed but consumed input", in)
	}
}

func TestAuditHeader(t *testing.T) {
	n := 0
	buf := make([]byte, 3)
	for l := 0; l <= 3; l++ {
		max := 1
		for i := 0; i < l; i++ {
			max *= 256
		}
		for v := 0; v < max; v++ {
			x := v
			for i := 0; i < l; i++ {
				buf[i] = byte(x)
				x >>= 8
			}
			checkOne(t, buf[:l])
			n++
		}
	}
	// long forms with boundary values
	for _, tag := range []byte{0x30, 0x04, 0x1f, 0xa0} {
		for ll := 1; ll <= 5; ll++ {
			for _, v := range []int{0, 1, 127, 128, 255, 256, 65535, 65536, 1 << 24, 1<<24 - 1} {
				in := []byte{tag, 0x80 | byte(ll)}
				for i := ll - 1; i >= 0; i-- {
					in = append(in, byte(v>>(8*uint(i))))
				}
				for _, body := range []int{0, v, v + 1} {
					if body > 70000 {
						continue
					}
					checkOne(t, append(append([]byte{}, in...), make([]byte, body)...))
					n++
				}
			}
		}
	}
	t.Logf("AUDIT cases=%d", n)
}

// reference for INTEGER contents (8.3.2) and value
func refInt(b []byte) (ok bool, v int64) {
	if len(b) == 0 || len(b) > 8 {
		return false, 0
	}
	if len(b) > 1 && (b[0] == 0 && b[1]&0x80 == 0 || b[0] == 0xff && b[1]&0x80 != 0) {
		return false, 0
	}
	v = int64(int8(b[0]))
	for _, x := range b[1:] {
		v = v<<8 | int64(x)
	}
	return true, v
}

func TestAuditInt(t *testing.T) {
	n := 0
	buf := make([]byte, 3)
	for l := 0; l <= 3; l++ {
		max := 1
		for i := 0; i < l; i++ {
			max *= 256
		}
		for v := 0; v < max; v++ {
			x := v
			for i := 0; i < l; i++ {
				buf[i] = byte(x)
				x >>= 8
			}
			in := append([]byte{0x02, byte(l)}, buf[:l]...)
			s := String(in)
			var got int64
			okGot := s.readASN1Int64(&got)
			ok, want := refInt(buf[:l])
			if okGot != ok || (ok && got != want) {
				t.Fatalf("readASN1Int64(% x) = %v,%d reference %v,%d", in, okGot, got, ok, want)
			}
			n++
		}
	}
	t.Logf("AUDIT cases=%d", n)
}

// reference for a base-128 sub-identifier of at most 4 octets (8.19.2)
func refB128(b []byte) (ok bool, v, used int) {
	for i := 0; i < len(b) && i < 4; i++ {
		if i == 0 && b[0] == 0x80 {
			return false, 0, 0
		}
		v = v<<7 | int(b[i]&0x7f)
		if b[i]&0x80 == 0 {
			return true, v, i + 1
		}
	}
	return false, 0, 0
}

func TestAuditB128(t *testing.T) {
	n := 0
	buf := make([]byte, 3)
	for l := 0; l <= 3; l++ {
		max := 1
		for i := 0; i < l; i++ {
			max *= 256
		}
		for v := 0; v < max; v++ {
			x := v
			for i := 0; i < l; i++ {
				buf[i] = byte(x)
				x >>= 8
			}
			s := String(append([]byte{}, buf[:l]...))
			var got int
			okGot := s.readBase128Int(&got)
			ok, want, used := refB128(buf[:l])
			if okGot != ok || (ok && (got != want || len(s) != l-used)) {
				t.Fatalf("readBase128Int(% x) = %v,%d rest %d; reference %v,%d used %d", buf[:l], okGot, got, len(s), ok, want, used)
			}
			n++
		}
	}
	t.Logf("AUDIT cases=%d", n)
}
