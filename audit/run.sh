#!/bin/sh
# run.sh <pkg dir relative to /repo> <audit dir under /verif/audit> <test regexp>
# Runs a bounded stand-in: a Go test overlaid into the package (nothing is written to /repo).
here="$(cd "$(dirname "$0")" && pwd)"
pkg="$1"; dir="$2"; re="$3"
export GOFLAGS=-mod=mod GOPROXY=off GOSUMDB=off GOTOOLCHAIN=local
export PATH=/opt/veriftools/go1.26.8/bin:$PATH
tmp="$(mktemp -d)"
trap 'rm -rf "$tmp"' EXIT
printf '{"Replace": {"/repo/%s/zz_verif_audit_test.go": "%s/%s/zz_audit_test.go"}}' "$pkg" "$here" "$dir" > "$tmp/ov.json"
cd /repo && go test -overlay "$tmp/ov.json" -vet=off -count=1 -timeout 1200s -run "$re" -v "./$pkg" > "$tmp/out.txt" 2>&1
rc=$?
grep -E '^(--- |ok|FAIL|panic)|AUDIT|zz_verif_audit_test' "$tmp/out.txt" | tail -40
exit $rc
