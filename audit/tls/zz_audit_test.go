package tls

// Bounded stand-in (NOT proof): (1) audit of the ASSUMED container/list contract used for
// C35 - the ghost view (sequence of elements, positions) is recomputed from the real list
// after every operation of every short operation sequence and compared with what the
// contract predicts; (2) all Put/Get sequences of length <= 6 over 3 keys and capacities
// 1..3 on the real cache against a reference LRU model.

import (
	"container/list"
	"fmt"
	"testing"
)

func listView(l *list.List) []*list.Element {
	var v []*list.Element
	for e := l.Front(); e != nil; e = e.Next() {
		v = append(v, e)
	}
	return v
}

func TestAuditListContract(t *testing.T) {
	// operations: 0 PushFront, 1 MoveToFront(k), 2 Remove(k)
	cases := 0
	var rec func(ops []int)
	run := func(ops []int) {
		l := list.New()
		var model []*list.Element
		var all []*list.Element
		for _, op := range ops {
			kind, k := op/4, op%4
			switch kind {
			case 0:
				e := l.PushFront(len(all))
				all = append(all, e)
				model = append([]*list.Element{e}, model...)
			case 1, 2:
				if k >= len(all) {
					continue
				}
				e := all[k]
				pos := -1
				for i, x := range model {
					if x == e {
						pos = i
					}
				}
				if kind == 1 {
					l.MoveToFront(e)
					if pos >= 0 {
						nm := []*list.Element{e}
						nm = append(nm, model[:pos]...)
						nm = append(nm, model[pos+1:]...)
						model = nm
					}
				} else {
					l.Remove(e)
					if pos >= 0 {
						model = append(append([]*list.Element{}, model[:pos]...), model[pos+1:]...)
					}
				}
			}
			got := listView(l)
			if len(got) != len(model) || l.Len() != len(model) {
				t.Fatalf("ops %v: len %d, contract predicts %d", ops, len(got), len(model))
			}
			for i := range got {
				if got[i] != model[i] {
					t.Fatalf("ops %v: element %d differs from the contract's prediction", ops, i)
				}
			}
			if len(model) > 0 && (l.Front() != model[0] || l.Back() != model[len(model)-1]) {
				t.Fatalf("ops %v: Front/Back", ops)
			}
			cases++
		}
	}
	rec = func(ops []int) {
		run(ops)
		if len(ops) == 5 {
			return
		}
		for op := 0; op < 12; op++ {
			if op/4 == 0 && op%4 != 0 {
				continue
			}
			rec(append(append([]int{}, ops...), op))
		}
	}
	rec(nil)
	t.Logf("AUDIT cases=%d", cases)
}

type refLRU struct {
	cap  int
	keys []string // most recent first
	vals map[string]*ClientSessionState
}

func (r *refLRU) put(k string, v *ClientSessionState) {
	idx := -1
	for i, x := range r.keys {
		if x == k {
			idx = i
		}
	}
	if idx >= 0 {
		r.keys = append(r.keys[:idx], r.keys[idx+1:]...)
		delete(r.vals, k)
		if v == nil {
			return
		}
	} else {
		if v == nil {
			return
		}
		if len(r.keys) >= r.cap {
			last := r.keys[len(r.keys)-1]
			r.keys = r.keys[:len(r.keys)-1]
			delete(r.vals, last)
		}
	}
	r.keys = append([]string{k}, r.keys...)
	r.vals[k] = v
}

func (r *refLRU) get(k string) (*ClientSessionState, bool) {
	v, ok := r.vals[k]
	if !ok {
		return nil, false
	}
	for i, x := range r.keys {
		if x == k {
			r.keys = append(r.keys[:i], r.keys[i+1:]...)
		}
	}
	r.keys = append([]string{k}, r.keys...)
	return v, true
}

func TestAuditLRU(t *testing.T) {
	keys := []string{"a", "b", "c"}
	states := []*ClientSessionState{{}, {}}
	cases := 0
	// op encoding: 0..2 get key; 3..8 put key state(0,1); 9..11 put key nil
	var rec func(capacity int, ops []int)
	run := func(capacity int, ops []int) {
		c := NewLRUClientSessionCache(capacity)
		r := &refLRU{cap: capacity, vals: map[string]*ClientSessionState{}}
		for _, op := range ops {
			switch {
			case op < 3:
				g, gok := c.Get(keys[op])
				w, wok := r.get(keys[op])
				if g != w || gok != wok {
					t.Fatalf("cap %d ops %v: Get(%s) = %v,%v reference %v,%v", capacity, ops, keys[op], g, gok, w, wok)
				}
			case op < 9:
				k, s := keys[(op-3)%3], states[(op-3)/3]
				c.Put(k, s)
				r.put(k, s)
			default:
				c.Put(keys[op-9], nil)
				r.put(keys[op-9], nil)
			}
			cases++
		}
		for _, k := range keys {
			lc := c.(*lruSessionCache)
			_, in := lc.m[k]
			_, win := r.vals[k]
			if in != win {
				t.Fatalf("cap %d ops %v: key %s cached=%v reference=%v", capacity, ops, k, in, win)
			}
		}
	}
	rec = func(capacity int, ops []int) {
		run(capacity, ops)
		if len(ops) == 5 {
			return
		}
		for op := 0; op < 12; op++ {
			rec(capacity, append(append([]int{}, ops...), op))
		}
	}
	for capacity := 1; capacity <= 3; capacity++ {
		rec(capacity, nil)
	}
	t.Logf("AUDIT cases=%d", cases)
	_ = fmt.Sprint
}
