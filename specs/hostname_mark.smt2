; Instantiation marker for the hostname contracts (property C09). Kept apart from hostname.smt2 so
; that functions which only need the marker (oidInExtensions, hasSANExtension) do not get the
; string axioms of hostname.smt2 into their verification conditions.
; mark(i) holds for every i. The hostname contracts use it as the trigger of every quantifier
; over positions and carry it as a premise (forall j: !mark(j) || P(j)), so that a position named in
; a goal (its skolem constant sk comes with mark(sk)) instantiates the matching hypothesis; loop
; invariants mark(it) put the current index into the proof context, so that the witness of an
; existential conclusion - the element the loop is looking at when it returns - is found by
; matching. Element triggers such as c.DNSNames[j] proved unreliable: the solver normalises the
; index arithmetic inside them (it = phi + 1 is flattened into the offset sum, sums are
; reordered), and matching is syntactic.
;; spec mark (i int) bool
(declare-fun mark ((_ BitVec 64)) Bool)
(assert (forall ((i (_ BitVec 64))) (! (mark i) :pattern ((mark i)))))
