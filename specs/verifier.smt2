; Spec functions for the verifier contracts (verifier/verifier.go, verifier/graph.go).
; idx(i) = i: the identity on indices, used only as an instantiation trigger. govc writes
; s[i] as (elem s i) = base/path/(bvadd off i); a trigger containing that sum is matched
; syntactically, and the solvers normalise sums (off + (it + 1) becomes a flat 3-ary sum), so
; quantified facts about chains[i] are not instantiated at compound indices. Quantifiers in
; the contracts therefore carry the trigger idx(i), and the invariants mention idx(t) for the
; index terms t at which they are needed. The axiom is a definitional extension (idx := \i. i).
;; spec idx (i int) int
(declare-fun idx ((_ BitVec 64)) (_ BitVec 64))
(assert (forall ((i (_ BitVec 64))) (! (= (idx i) i) :pattern ((idx i)))))
; pos(j) = j: the same device for positions in the result slice (a separate function, so that
; position terms do not instantiate the quantifiers over chain indices and vice versa).
;; spec pos (j int) int
(declare-fun pos ((_ BitVec 64)) (_ BitVec 64))
(assert (forall ((j (_ BitVec 64))) (! (= (pos j) j) :pattern ((pos j)))))
