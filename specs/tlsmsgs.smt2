; TLS vector-walk spec functions for tls/handshake_messages.go (topic tlsmsgs).
; RFC 5246 4.3 / 7.4.2: certificate_list is a sequence of entries, each a uint24 length
; followed by that many bytes. tm_v24_pos(s, k) is the offset (relative to the start of s)
; just after the first k entries, obtained by reading the length fields only (no bounds).
; Recursive definition (define-fun-rec, k decreases towards 0): a definition, not an axiom.
;; spec tm_v24_pos (s seq, k int) int
(define-fun-rec tm_v24_pos ((h (Array Loc (_ BitVec 8))) (s Slice) (k (_ BitVec 64))) (_ BitVec 64)
  (ite (bvsle k #x0000000000000000) #x0000000000000000 (bvadd (tm_v24_pos h s (bvsub k #x0000000000000001)) #x0000000000000003 ((_ zero_extend 40) (concat (select h (elem s (tm_v24_pos h s (bvsub k #x0000000000000001)))) (select h (elem s (bvadd (tm_v24_pos h s (bvsub k #x0000000000000001)) #x0000000000000001))) (select h (elem s (bvadd (tm_v24_pos h s (bvsub k #x0000000000000001)) #x0000000000000002))))))))
(define-fun-rec tm_v24_pos_a ((a (Array (_ BitVec 64) (_ BitVec 8))) (k (_ BitVec 64))) (_ BitVec 64)
  (ite (bvsle k #x0000000000000000) #x0000000000000000 (bvadd (tm_v24_pos_a a (bvsub k #x0000000000000001)) #x0000000000000003 ((_ zero_extend 40) (concat (select a (tm_v24_pos_a a (bvsub k #x0000000000000001))) (select a (bvadd (tm_v24_pos_a a (bvsub k #x0000000000000001)) #x0000000000000001)) (select a (bvadd (tm_v24_pos_a a (bvsub k #x0000000000000001)) #x0000000000000002)))))))
; the first k entries lie inside the first n bytes of s: entry j starts at a non-negative
; offset p, at least 4 bytes remain there (3-byte header and one more byte, which is what
; certificateMsg.unmarshal demands before reading an entry), and the entry ends at or before n.
;; spec tm_v24_ok (s seq, k int, n int) bool
(define-fun tm_v24_ok ((h (Array Loc (_ BitVec 8))) (s Slice) (k (_ BitVec 64)) (n (_ BitVec 64))) Bool
  (forall ((j (_ BitVec 64))) (! (=> (and (bvsle #x0000000000000000 j) (bvslt j k))
    (and (bvsle #x0000000000000000 (tm_v24_pos h s j)) (bvsle (bvadd (tm_v24_pos h s j) #x0000000000000004) n) (bvsle (bvadd (tm_v24_pos h s j) #x0000000000000003 ((_ zero_extend 40) (concat (select h (elem s (tm_v24_pos h s j))) (select h (elem s (bvadd (tm_v24_pos h s j) #x0000000000000001))) (select h (elem s (bvadd (tm_v24_pos h s j) #x0000000000000002)))))) n)))
   :pattern ((tm_v24_pos h s j)))))
(define-fun tm_v24_ok_a ((a (Array (_ BitVec 64) (_ BitVec 8))) (k (_ BitVec 64)) (n (_ BitVec 64))) Bool
  (forall ((j (_ BitVec 64))) (! (=> (and (bvsle #x0000000000000000 j) (bvslt j k))
    (and (bvsle #x0000000000000000 (tm_v24_pos_a a j)) (bvsle (bvadd (tm_v24_pos_a a j) #x0000000000000004) n) (bvsle (bvadd (tm_v24_pos_a a j) #x0000000000000003 ((_ zero_extend 40) (concat (select a (tm_v24_pos_a a j)) (select a (bvadd (tm_v24_pos_a a j) #x0000000000000001)) (select a (bvadd (tm_v24_pos_a a j) #x0000000000000002))))) n)))
   :pattern ((tm_v24_pos_a a j)))))
