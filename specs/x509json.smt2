; Spec functions for the x509 JSON helpers (area x509json; properties C02, C33).
; Hand-written; same conventions as der.smt2 / hostname.smt2.
; Go's order on strings (bytewise lexicographic, the order sort.Strings sorts by): sle(a, b) is
; "a <= b". Uninterpreted: it is named only by the assumed contract of sort.Strings
; (/verif/extern/x509json.contracts) and passed on by purgeNameDuplicates; nothing is derived
; from its meaning.
;; spec sle (a string, b string) bool
(declare-fun sle (Str Str) Bool)
; Instantiation marker (same device as hostname_mark.smt2: jmark(i) holds for every i; used as
; the trigger and premise of quantifiers over positions).
;; spec jmark (i int) bool
(declare-fun jmark ((_ BitVec 64)) Bool)
(assert (forall ((i (_ BitVec 64))) (! (jmark i) :pattern ((jmark i)))))
