; Instantiation markers for the chainbuild contracts (x509/verify.go checkChainForKeyUsage,
; property C07). Same device as spec.pmark (certpool_time.smt2) and spec.mark
; (hostname_mark.smt2): each marker holds for every argument, is the trigger of the
; quantifiers over one kind of position and is carried by them as a premise, so that a position
; named in a goal (or a loop index put into the context by an invariant) instantiates the
; matching hypotheses by matching alone. Three separate markers - positions in the chain,
; positions in a certificate's usage list, slots of the requested usages - keep the three
; kinds of quantifier from instantiating each other's index terms (with one shared marker the
; nested statements "some usage is accepted by every certificate through some listed usage"
; produced the cross product of all index terms and the solvers ran out of time).
; Definitional extension: nothing but "always true" is known about them.
;; spec cmark (i int) bool
(declare-fun cmark ((_ BitVec 64)) Bool)
(assert (forall ((i (_ BitVec 64))) (! (cmark i) :pattern ((cmark i)))))
;; spec emark (i int) bool
(declare-fun emark ((_ BitVec 64)) Bool)
(assert (forall ((i (_ BitVec 64))) (! (emark i) :pattern ((emark i)))))
;; spec umark (i int) bool
(declare-fun umark ((_ BitVec 64)) Bool)
(assert (forall ((i (_ BitVec 64))) (! (umark i) :pattern ((umark i)))))
