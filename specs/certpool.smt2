; Spec functions for the CertPool contracts (x509/cert_pool.go).
; keystr(s, n): the Go string holding the first n bytes of byte sequence s, i.e. the map key
; string(b) of a byte slice b with len(b) == n, in the canonical form of govc's own
; []byte -> string conversion (bytes beyond the length are zero).
; It is introduced by its two defining equations instead of a define-fun with an array
; lambda  (mkStr n (lambda ((i (_ BitVec 64))) (ite (bvult i n) (select h (elem s i)) #x00)))
; because z3 is an order of magnitude slower on the lambda form; that term is a witness
; that the two axioms below are consistent (they are a definitional extension).
;; spec keystr (s seq, n int) string
(declare-fun keystr ((Array Loc (_ BitVec 8)) Slice (_ BitVec 64)) Str)
(assert (forall ((h (Array Loc (_ BitVec 8))) (s Slice) (n (_ BitVec 64))) (! (= (str_len (keystr h s n)) n) :pattern ((keystr h s n)))))
(assert (forall ((h (Array Loc (_ BitVec 8))) (s Slice) (n (_ BitVec 64)) (i (_ BitVec 64))) (! (= (select (str_arr (keystr h s n)) i) (ite (bvult i n) (select h (elem s i)) #x00)) :pattern ((select (str_arr (keystr h s n)) i)))))
