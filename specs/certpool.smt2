; Spec functions for the CertPool contracts (x509/cert_pool.go).
; keystr(s, n): the Go string holding the first n bytes of byte sequence s - the map key
; string(b) of a byte slice b with len(b) == n (same canonical form as govc's own
; []byte -> string conversion: bytes beyond the length are zero).
;; spec keystr (s seq, n int) string
(define-fun keystr ((h (Array Loc (_ BitVec 8))) (s Slice) (n (_ BitVec 64))) Str (mkStr n (lambda ((i (_ BitVec 64))) (ite (bvult i n) (select h (elem s i)) #x00))))
(define-fun keystr_a ((a (Array (_ BitVec 64) (_ BitVec 8))) (n (_ BitVec 64))) Str (mkStr n (lambda ((i (_ BitVec 64))) (ite (bvult i n) (select a i) #x00))))
