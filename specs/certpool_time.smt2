; Spec functions for the ordering of time.Time values (certpool area: FilterByDate, property C07).
; Kept apart from certpool.smt2 so that other areas whose code calls Before/After do not get the
; CertPool axioms into their verification conditions.
; Instants. tsec / tnsec name the instant denoted by a time.Time value (seconds and
; nanoseconds within the second) as functions of the value's representation (its wall and
; ext words); tmono: the value carries a monotonic clock reading. All three uninterpreted:
; the assumed contracts of (time.Time).Before / After (/verif/extern/certpool.contracts) say
; that "before" is the lexicographic order on (tsec, tnsec) unless both values carry a
; monotonic reading. Nothing else is known about them.
;; spec tsec (wall uint64, ext int64) int64
(declare-fun tsec ((_ BitVec 64) (_ BitVec 64)) (_ BitVec 64))
;; spec tnsec (wall uint64, ext int64) int32
(declare-fun tnsec ((_ BitVec 64) (_ BitVec 64)) (_ BitVec 32))
;; spec tmono (wall uint64, ext int64) bool
(declare-fun tmono ((_ BitVec 64) (_ BitVec 64)) Bool)
; Instantiation marker (same device as spec.mark in hostname.smt2, repeated here so that the
; certpool contracts do not pull the hostname axioms into their verification conditions):
; pmark(i) holds for every i; quantifiers over positions use it as their trigger and carry it as
; a premise, so that a position named in a goal instantiates the matching hypothesis.
;; spec pmark (i int) bool
(declare-fun pmark ((_ BitVec 64)) Bool)
(assert (forall ((i (_ BitVec 64))) (! (pmark i) :pattern ((pmark i)))))
