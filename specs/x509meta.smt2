; Spec functions for the x509meta contracts (property C06: x509/fingerprint.go, parseCertificate).
; The hash functions are UNINTERPRETED total functions of the message CONTENTS: the message is
; passed as a Go string value (govc's canonical []byte -> string conversion: length plus the
; bytes, zero beyond the length), so two byte slices with equal contents - or one slice read in
; two heap states that agree on its bytes - have the same digest (SMT array extensionality on
; Str). xxxb(m, k) is byte k of the digest of m; nothing else is known about it (no collision
; resistance, no relation between the four functions). Pure declarations: no axioms, hence no
; way to introduce an inconsistency.
;; spec md5b (m string, k int) uint8
(declare-fun md5b (Str (_ BitVec 64)) (_ BitVec 8))
;; spec sha1b (m string, k int) uint8
(declare-fun sha1b (Str (_ BitVec 64)) (_ BitVec 8))
;; spec sha256b (m string, k int) uint8
(declare-fun sha256b (Str (_ BitVec 64)) (_ BitVec 8))
;; spec sha512b (m string, k int) uint8
(declare-fun sha512b (Str (_ BitVec 64)) (_ BitVec 8))
