; Spec functions for hostname verification (property C09; RFC 6125 6.4, RFC 5280 4.2.1.6).
; Hand-written; same conventions as der.smt2.
; ASCII lower-casing of one byte (RFC 6125 6.4.1 / RFC 4343: only 'A'..'Z' are folded)
;; spec lc (b uint8) uint8
(define-fun lc ((b (_ BitVec 8))) (_ BitVec 8) (ite (and (bvule #x41 b) (bvule b #x5a)) (bvadd b #x20) b))
; s without one trailing byte c, if it has one (strings.TrimSuffix with a one-byte suffix).
; The dropped position is zeroed so that a string whose array is zero beyond its length
; stays so (govc's string values carry an array; bytes beyond the length are irrelevant).
;; spec trim1 (s string, c uint8) string
(define-fun trim1 ((s Str) (c (_ BitVec 8))) Str (ite (and (bvsge (str_len s) #x0000000000000001) (= (select (str_arr s) (bvsub (str_len s) #x0000000000000001)) c)) (mkStr (bvsub (str_len s) #x0000000000000001) (store (str_arr s) (bvsub (str_len s) #x0000000000000001) #x00)) s))
; Names for the result of splitting string s at every occurrence of byte c (strings.Split
; with a one-byte separator): nparts = number of parts, part k = the k-th part, partoff k =
; offset in s at which part k starts. The three names are uninterpreted; what is known about
; them is split_ok below, which the assumed contract of strings.Split
; (/verif/extern/hostname.contracts) asserts for its argument. split_ok has exactly one
; solution for every s (the parts are the maximal c-free substrings), so it defines them.
;; spec nparts (s string, c uint8) int
(declare-fun nparts (Str (_ BitVec 8)) (_ BitVec 64))
;; spec partoff (s string, c uint8, k int) int
(declare-fun partoff (Str (_ BitVec 8) (_ BitVec 64)) (_ BitVec 64))
;; spec part (s string, c uint8, k int) string
(declare-fun part (Str (_ BitVec 8) (_ BitVec 64)) Str)
; "Split slices s into all substrings separated by sep": at least one part; the parts joined
; by c give s (part 0 starts at 0, part k+1 starts one byte after the end of part k, that
; byte is c, and the last part ends at len(s)); part k is the substring of s at its offset;
; no part contains c; a part's array is zero beyond its length (representation detail).
;; spec split_ok (s string, c uint8) bool
(define-fun split_ok ((s Str) (c (_ BitVec 8))) Bool (and
  (bvsge (nparts s c) #x0000000000000001)
  (bvsle (nparts s c) (bvadd (str_len s) #x0000000000000001))
  (= (partoff s c #x0000000000000000) #x0000000000000000)
  (= (partoff s c (nparts s c)) (bvadd (str_len s) #x0000000000000001))
  (forall ((k (_ BitVec 64))) (! (=> (and (bvsle #x0000000000000000 k) (bvslt k (nparts s c)))
      (and (bvsle #x0000000000000000 (str_len (part s c k)))
           (bvsle #x0000000000000000 (partoff s c k))
           (= (partoff s c (bvadd k #x0000000000000001)) (bvadd (partoff s c k) (str_len (part s c k)) #x0000000000000001))
           (bvsle (partoff s c (bvadd k #x0000000000000001)) (bvadd (str_len s) #x0000000000000001))))
    :pattern ((part s c k))))
  (forall ((k (_ BitVec 64)) (j (_ BitVec 64))) (! (=> (and (bvsle #x0000000000000000 k) (bvslt k (nparts s c)))
      (ite (and (bvsle #x0000000000000000 j) (bvslt j (str_len (part s c k))))
           (and (= (select (str_arr (part s c k)) j) (select (str_arr s) (bvadd (partoff s c k) j)))
                (not (= (select (str_arr (part s c k)) j) c)))
           (= (select (str_arr (part s c k)) j) #x00)))
    :pattern ((select (str_arr (part s c k)) j))))
  (forall ((k (_ BitVec 64))) (! (=> (and (bvsle #x0000000000000001 k) (bvslt k (nparts s c)))
      (= (select (str_arr s) (bvsub (partoff s c k) #x0000000000000001)) c))
    :pattern ((partoff s c k))))))
; The documented matching rule of VerifyHostname / matchHostnames: one trailing dot is ignored on
; pattern and host; both must then be non-empty, have the same number of dot-separated labels,
; and every pattern label is "*" or equals the corresponding host label.
; hn_match is introduced by its defining equivalence instead of a define-fun, triggered only
; where a term hn_match(p, h) occurs together with some split at '.' (nparts q '.': that is, in
; the proof of matchHostnames; q is otherwise unused): callers of matchHostnames
; (VerifyHostname) then reason about hn_match(p, h) as an atom. The define-fun with the same body is
; the witness that the axiom is a definitional extension.
;; spec hn_match (p string, h string) bool
(declare-fun hn_match (Str Str) Bool)
(assert (forall ((p Str) (h Str) (q Str)) (! (= (hn_match p h) (and
  (bvsge (str_len (trim1 p #x2e)) #x0000000000000001)
  (bvsge (str_len (trim1 h #x2e)) #x0000000000000001)
  (= (nparts (trim1 p #x2e) #x2e) (nparts (trim1 h #x2e) #x2e))
  (forall ((k (_ BitVec 64))) (=> (and (bvsle #x0000000000000000 k) (bvslt k (nparts (trim1 p #x2e) #x2e)))
      (or (= (part (trim1 p #x2e) #x2e k) (mkStr #x0000000000000001 (store zero8arr #x0000000000000000 #x2a)))
          (= (part (trim1 p #x2e) #x2e k) (part (trim1 h #x2e) #x2e k))))))) :pattern ((hn_match p h) (nparts q #x2e)))))
; The ASCII lower-casing of a whole string (RFC 6125 6.4.1): same length, byte i is lc(s[i]).
; (A declared function with its defining equation, not a define-fun: two applications to equal
; arguments are then equal by congruence; a macro-expanded array lambda is not.)
;; spec lower (s string) string
(declare-fun lower (Str) Str)
(assert (forall ((s Str)) (! (= (lower s) (mkStr (str_len s) (lambda ((i (_ BitVec 64))) (ite (bvult i (str_len s)) (lc (select (str_arr s) i)) #x00)))) :pattern ((lower s)))))
; Names for the result of net.ParseIP(s): whether s is a textual IP address (ip_literal), and the
; parsed address as a string of bytes (ip_val: the 4 or 16 bytes of the returned net.IP, in
; the canonical form of keystr, /verif/specs/certpool.smt2). Uninterpreted (the textual syntax
; of IP addresses is not modelled); they make the result of ParseIP a function of its argument
; that postconditions can refer to.
;; spec ip_literal (s string) bool
(declare-fun ip_literal (Str) Bool)
;; spec ip_val (s string) string
(declare-fun ip_val (Str) Str)
; net.IP.Equal's documented rule on two addresses given as byte strings: "Equal reports whether
; ip and x are the same IP address. An IPv4 address and that same address in IPv6 form are
; considered to be equal." IPv6 form of a.b.c.d = ::ffff:a.b.c.d (RFC 4291 2.5.5.2):
; ip_v4in6(x, y): x has 16 bytes 00 (x10) ff ff y0 y1 y2 y3 and y has the 4 bytes y0..y3.
(define-fun ip_v4in6 ((x Str) (y Str)) Bool (and (= (str_len x) #x0000000000000010) (= (str_len y) #x0000000000000004)
  (= (select (str_arr x) #x0000000000000000) #x00) (= (select (str_arr x) #x0000000000000001) #x00)
  (= (select (str_arr x) #x0000000000000002) #x00) (= (select (str_arr x) #x0000000000000003) #x00)
  (= (select (str_arr x) #x0000000000000004) #x00) (= (select (str_arr x) #x0000000000000005) #x00)
  (= (select (str_arr x) #x0000000000000006) #x00) (= (select (str_arr x) #x0000000000000007) #x00)
  (= (select (str_arr x) #x0000000000000008) #x00) (= (select (str_arr x) #x0000000000000009) #x00)
  (= (select (str_arr x) #x000000000000000a) #xff) (= (select (str_arr x) #x000000000000000b) #xff)
  (= (select (str_arr x) #x000000000000000c) (select (str_arr y) #x0000000000000000))
  (= (select (str_arr x) #x000000000000000d) (select (str_arr y) #x0000000000000001))
  (= (select (str_arr x) #x000000000000000e) (select (str_arr y) #x0000000000000002))
  (= (select (str_arr x) #x000000000000000f) (select (str_arr y) #x0000000000000003))))
; Equal byte strings (same length, same bytes; both in canonical form), or one is the IPv6 form
; of the other.
;; spec ip_same (a string, b string) bool
(define-fun ip_same ((a Str) (b Str)) Bool (or (= a b) (ip_v4in6 a b) (ip_v4in6 b a)))
; "IP addresses may be written in [ ]" (VerifyHostname): s with one pair of enclosing square
; brackets removed, i.e. s[1:len(s)-1] when len(s) >= 3, s[0] = '[' and s[len(s)-1] = ']',
; otherwise s itself. Bytes beyond the length are zero (canonical form of govc's substrings).
; (Declared function with defining equation, as for lower.)
;; spec unbracket (s string) string
(declare-fun unbracket (Str) Str)
(assert (forall ((s Str)) (! (= (unbracket s) (ite (and (bvsge (str_len s) #x0000000000000003) (= (select (str_arr s) #x0000000000000000) #x5b) (= (select (str_arr s) (bvsub (str_len s) #x0000000000000001)) #x5d)) (mkStr (bvsub (str_len s) #x0000000000000002) (lambda ((i (_ BitVec 64))) (ite (bvult i (bvsub (str_len s) #x0000000000000002)) (select (str_arr s) (bvadd i #x0000000000000001)) #x00))) s)) :pattern ((unbracket s)))))
