; Spec functions for hostname verification (property C09; RFC 6125 6.4, RFC 5280 4.2.1.6).
; Hand-written; same conventions as der.smt2.
; ASCII lower-casing of one byte (RFC 6125 6.4.1 / RFC 4343: only 'A'..'Z' are folded)
;; spec lc (b uint8) uint8
(define-fun lc ((b (_ BitVec 8))) (_ BitVec 8) (ite (and (bvule #x41 b) (bvule b #x5a)) (bvadd b #x20) b))
