; Spec functions for hostname verification (property C09; RFC 6125 6.4, RFC 5280 4.2.1.6).
; Hand-written; same conventions as der.smt2.
; ASCII lower-casing of one byte (RFC 6125 6.4.1 / RFC 4343: only 'A'..'Z' are folded)
;; spec lc (b uint8) uint8
(define-fun lc ((b (_ BitVec 8))) (_ BitVec 8) (ite (and (bvule #x41 b) (bvule b #x5a)) (bvadd b #x20) b))
; Names for the result of splitting string s at every occurrence of byte c (strings.Split
; with a one-byte separator). They are uninterpreted: everything known about them is the
; characterisation assumed in the contract of strings.Split (/verif/extern/hostname.contracts):
; nparts >= 1, part k occupies s[partoff k : partoff (k+1) - 1], consecutive parts are
; separated by exactly one byte c, and no part contains c. That characterisation has
; exactly one solution for every s, so the names are well defined.
;; spec nparts (s string, c uint8) int
(declare-fun nparts (Str (_ BitVec 8)) (_ BitVec 64))
;; spec partoff (s string, c uint8, k int) int
(declare-fun partoff (Str (_ BitVec 8) (_ BitVec 64)) (_ BitVec 64))
;; spec part (s string, c uint8, k int) string
(declare-fun part (Str (_ BitVec 8) (_ BitVec 64)) Str)
