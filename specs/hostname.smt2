; Spec functions for hostname verification (property C09; RFC 6125 6.4, RFC 5280 4.2.1.6).
; Hand-written; same conventions as der.smt2.
; ASCII lower-casing of one byte (RFC 6125 6.4.1 / RFC 4343: only 'A'..'Z' are folded)
;; spec lc (b uint8) uint8
(define-fun lc ((b (_ BitVec 8))) (_ BitVec 8) (ite (and (bvule #x41 b) (bvule b #x5a)) (bvadd b #x20) b))
; s without one trailing byte c, if it has one (strings.TrimSuffix with a one-byte suffix).
; The dropped position is zeroed so that a string whose array is zero beyond its length
; stays so (govc's string values carry an array; bytes beyond the length are irrelevant).
;; spec trim1 (s string, c uint8) string
(define-fun trim1 ((s Str) (c (_ BitVec 8))) Str (ite (and (bvsge (str_len s) #x0000000000000001) (= (select (str_arr s) (bvsub (str_len s) #x0000000000000001)) c)) (mkStr (bvsub (str_len s) #x0000000000000001) (store (str_arr s) (bvsub (str_len s) #x0000000000000001) #x00)) s))
; Names for the result of splitting string s at every occurrence of byte c (strings.Split
; with a one-byte separator): nparts = number of parts, part k = the k-th part, partoff k =
; offset in s at which part k starts. The three names are uninterpreted; what is known about
; them is split_ok below, which the assumed contract of strings.Split
; (/verif/extern/hostname.contracts) asserts for its argument. split_ok has exactly one
; solution for every s (the parts are the maximal c-free substrings), so it defines them.
;; spec nparts (s string, c uint8) int
(declare-fun nparts (Str (_ BitVec 8)) (_ BitVec 64))
;; spec partoff (s string, c uint8, k int) int
(declare-fun partoff (Str (_ BitVec 8) (_ BitVec 64)) (_ BitVec 64))
;; spec part (s string, c uint8, k int) string
(declare-fun part (Str (_ BitVec 8) (_ BitVec 64)) Str)
; "Split slices s into all substrings separated by sep": at least one part; the parts joined
; by c give s (part 0 starts at 0, part k+1 starts one byte after the end of part k, that
; byte is c, and the last part ends at len(s)); part k is the substring of s at its offset;
; no part contains c; a part's array is zero beyond its length (representation detail).
;; spec split_ok (s string, c uint8) bool
(define-fun split_ok ((s Str) (c (_ BitVec 8))) Bool (and
  (bvsge (nparts s c) #x0000000000000001)
  (bvsle (nparts s c) (bvadd (str_len s) #x0000000000000001))
  (= (partoff s c #x0000000000000000) #x0000000000000000)
  (= (partoff s c (nparts s c)) (bvadd (str_len s) #x0000000000000001))
  (forall ((k (_ BitVec 64))) (! (=> (and (bvsle #x0000000000000000 k) (bvslt k (nparts s c)))
      (and (bvsle #x0000000000000000 (str_len (part s c k)))
           (bvsle #x0000000000000000 (partoff s c k))
           (= (partoff s c (bvadd k #x0000000000000001)) (bvadd (partoff s c k) (str_len (part s c k)) #x0000000000000001))
           (bvsle (partoff s c (bvadd k #x0000000000000001)) (bvadd (str_len s) #x0000000000000001))))
    :pattern ((part s c k))))
  (forall ((k (_ BitVec 64)) (j (_ BitVec 64))) (! (=> (and (bvsle #x0000000000000000 k) (bvslt k (nparts s c)))
      (ite (and (bvsle #x0000000000000000 j) (bvslt j (str_len (part s c k))))
           (and (= (select (str_arr (part s c k)) j) (select (str_arr s) (bvadd (partoff s c k) j)))
                (not (= (select (str_arr (part s c k)) j) c)))
           (= (select (str_arr (part s c k)) j) #x00)))
    :pattern ((select (str_arr (part s c k)) j))))
  (forall ((k (_ BitVec 64))) (! (=> (and (bvsle #x0000000000000001 k) (bvslt k (nparts s c)))
      (= (select (str_arr s) (bvsub (partoff s c k) #x0000000000000001)) c))
    :pattern ((partoff s c k))))))
; The documented matching rule of VerifyHostname / matchHostnames: one trailing dot is ignored on
; pattern and host; both must then be non-empty, have the same number of dot-separated labels,
; and every pattern label is "*" or equals the corresponding host label.
;; spec hn_match (p string, h string) bool
(define-fun hn_match ((p Str) (h Str)) Bool (and
  (bvsge (str_len (trim1 p #x2e)) #x0000000000000001)
  (bvsge (str_len (trim1 h #x2e)) #x0000000000000001)
  (= (nparts (trim1 p #x2e) #x2e) (nparts (trim1 h #x2e) #x2e))
  (forall ((k (_ BitVec 64))) (=> (and (bvsle #x0000000000000000 k) (bvslt k (nparts (trim1 p #x2e) #x2e)))
      (or (= (part (trim1 p #x2e) #x2e k) (mkStr #x0000000000000001 (store zero8arr #x0000000000000000 #x2a)))
          (= (part (trim1 p #x2e) #x2e k) (part (trim1 h #x2e) #x2e k)))))))
; The ASCII lower-casing of a whole string (RFC 6125 6.4.1): same length, byte i is lc(s[i]).
;; spec lower (s string) string
(define-fun lower ((s Str)) Str (mkStr (str_len s) (lambda ((i (_ BitVec 64))) (ite (bvult i (str_len s)) (lc (select (str_arr s) i)) #x00))))
; Names for the result of net.ParseIP(s): whether s is a textual IP address, and the length and
; bytes of the parsed address. Uninterpreted (the textual syntax of IP addresses is not modelled);
; they make the result of ParseIP a function of its argument that postconditions can refer to.
;; spec ip_literal (s string) bool
(declare-fun ip_literal (Str) Bool)
;; spec ip_len (s string) int
(declare-fun ip_len (Str) (_ BitVec 64))
;; spec ip_at (s string, i int) uint8
(declare-fun ip_at (Str (_ BitVec 64)) (_ BitVec 8))
