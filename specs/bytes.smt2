; Byte-sequence spec functions. A "seq" is (Array (_ BitVec 64) (_ BitVec 8)) indexed from 0.
;; spec be_val (s seq, n int) uint32
(define-fun be_val ((s (Array (_ BitVec 64) (_ BitVec 8))) (n (_ BitVec 64))) (_ BitVec 32)
  (let ((b0 ((_ zero_extend 24) (select s #x0000000000000000)))
        (b1 ((_ zero_extend 24) (select s #x0000000000000001)))
        (b2 ((_ zero_extend 24) (select s #x0000000000000002)))
        (b3 ((_ zero_extend 24) (select s #x0000000000000003))))
   (ite (= n #x0000000000000001) b0
   (ite (= n #x0000000000000002) (bvor (bvshl b0 #x00000008) b1)
   (ite (= n #x0000000000000003) (bvor (bvshl b0 #x00000010) (bvshl b1 #x00000008) b2)
   (ite (= n #x0000000000000004) (bvor (bvshl b0 #x00000018) (bvshl b1 #x00000010) (bvshl b2 #x00000008) b3)
    #x00000000))))))
