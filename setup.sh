#!/bin/sh
# Builds the verifier from sources on disk (offline).
set -e
cd "$(dirname "$0")/govc"
export GOFLAGS=-mod=mod GOPROXY=off GOSUMDB=off GOTOOLCHAIN=local
export PATH=/opt/veriftools/go1.26.8/bin:$PATH
mkdir -p ../bin
go build -o ../bin/govc .
