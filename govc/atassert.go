package main

import (
	"fmt"
	"go/types"
	"strings"

	"golang.org/x/tools/go/ssa"
)

// atAsserts checks the `at call <callee>[#k] assert E` clauses of the function's own
// contract at a call site. E may mention the function's parameters, locals of the
// function by source name (their value at the call), old(...), and arg0, arg1, ... (the
// call's arguments, receiver first).
func (c *FnVC) atAsserts(x *ssa.Call, name, tag string, args []string, atys []types.Type) {
	c.atAssertsIn(x.Block(), name, tag, args, atys)
}

// atAssertsIn: the same for any event located in block b (calls, channel sends: `at call
// send assert E` with arg0 the channel and arg1 the value sent).
func (c *FnVC) atAssertsIn(b *ssa.BasicBlock, name, tag string, args []string, atys []types.Type) {
	c.atAssertsGen(b, name, tag, args, atys, false, nil, nil)
}

// afterAsserts checks the `after call <callee>[#k] assert E` clauses: E is evaluated in the
// state right after the call returned (callee's contract applied), and may additionally
// mention result / result0, result1, ... - the values the call returned.
func (c *FnVC) afterAsserts(b *ssa.BasicBlock, name, tag string, args []string, atys []types.Type, rv []string, rtys []types.Type) {
	c.atAssertsGen(b, name, tag, args, atys, true, rv, rtys)
}

func (c *FnVC) atAssertsGen(b *ssa.BasicBlock, name, tag string, args []string, atys []types.Type, after bool, rv []string, rtys []types.Type) {
	if c.ct == nil {
		return
	}
	matched := 0
	tagSeen := map[string]int{}
	for _, at := range c.ct.At {
		if at.After != after {
			continue
		}
		if !strings.Contains(name, at.Callee) {
			continue
		}
		matched++
		clauseNo := matched
		if at.C.Tag != "" {
			tagSeen[at.C.Tag]++
		}
		if at.Nth != 0 && at.Nth != c.callN[name] {
			continue
		}
		cenv := c.localEnvAt(b)
		for i := range args {
			cenv[fmt.Sprintf("arg%d", i)] = envVal{args[i], atys[i]}
		}
		for i := range rv {
			cenv[fmt.Sprintf("result%d", i)] = envVal{rv[i], rtys[i]}
			if len(rv) == 1 {
				cenv["result"] = envVal{rv[i], rtys[i]}
			}
		}
		kind, word := "at", "at call"
		if after {
			kind, word = "after", "after call"
		}
		old := c.newEval(c.fn, c.paramEnv(), c.entry, nil)
		ev := c.newEval(c.fn, cenv, copyHeap(c.cur), old)
		for j, cj := range splitConjDeep(at.C.Expr, 0) {
			t, err := ev.boolExpr(cj)
			if err != nil {
				c.errorf("%s: %s %s: %v", c.fnName(), word, at.Callee, err)
				continue
			}
			// the k-th clause matching this site gets its own name (two clauses on one call
			// site must not share obligation names)
			on := fmt.Sprintf("%s@%s.c%d", kind, tag, j+1)
			if clauseNo > 1 {
				on = fmt.Sprintf("%s@%s.a%d.c%d", kind, tag, clauseNo, j+1)
			}
			if at.C.Tag != "" {
				on = fmt.Sprintf("%s@%s.%s.c%d", kind, tag, at.C.Tag, j+1)
				if tagSeen[at.C.Tag] > 1 {
					// several clauses of one call site share the tag: number them
					on = fmt.Sprintf("%s@%s.%s%d.c%d", kind, tag, at.C.Tag, tagSeen[at.C.Tag], j+1)
				}
			}
			c.obligeNamed("at", on, t, c.reach[b], "assertion "+word+" of "+name+": "+exprString(cj), nil)
			// a proved assertion is a fact for everything after it (as with the implicit
			// safety obligations): it can serve as a cut / staging lemma
			c.assume(imp(c.reach[b], t))
		}
	}
}

// localEnvAt: parameters plus locals by source name, each bound to the latest debug
// reference whose block dominates b (address-taken locals are read from the current heap).
func (c *FnVC) localEnvAt(b *ssa.BasicBlock) map[string]envVal {
	env := c.paramEnv()
	for obj, refs := range c.debug {
		nm := obj.Name()
		addrTaken := false
		for _, r := range refs {
			if r.IsAddr {
				addrTaken = true
			}
		}
		var best *ssa.DebugRef
		for _, r := range refs {
			if addrTaken != r.IsAddr {
				continue
			}
			if !(r.Block() == b || r.Block().Dominates(b)) {
				continue
			}
			if _, ok := c.vals[r.X]; !ok && !isConstVal(r.X) {
				if _, isG := r.X.(*ssa.Global); !isG {
					continue // not yet translated (later in the same block)
				}
			}
			if best == nil || best.Block().Dominates(r.Block()) {
				best = r
			}
		}
		if best == nil {
			continue
		}
		if best.IsAddr {
			pt, ok := best.X.Type().Underlying().(*types.Pointer)
			if !ok {
				continue
			}
			env[nm] = envVal{c.load(pt.Elem(), c.v(best.X)), pt.Elem()}
			env["&"+nm] = envVal{c.v(best.X), best.X.Type()}
			continue
		}
		env[nm] = envVal{c.v(best.X), best.X.Type()}
	}
	return env
}
