package main

// contractWarnings collects non-fatal problems found while loading contract files
// (duplicates). `verify` prints them; `check` refuses to run with any.
var contractWarnings []string

// rootPatForAppend: set while the loop frame pattern of an append destination is computed
// (an in-place append writes beyond len, up to cap).
var rootPatForAppend bool
