package main

// contractWarnings collects non-fatal problems found while loading contract files
// (duplicates). `verify` prints them; `check` refuses to run with any.
var contractWarnings []string
