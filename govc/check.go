package main

// govc check: the registered per-property check. Loads /repo's working tree, generates
// every obligation of the property's functions, discharges them, writes evidence.

import (
	"bufio"
	"encoding/json"
	"flag"
	"fmt"
	"os"
	"os/exec"
	"path/filepath"
	"regexp"
	"sort"
	"strconv"
	"strings"
	"time"
)

type PropSpec struct {
	ID        string   `json:"id"`
	Packages  []string `json:"packages"`
	Functions []string `json:"functions"` // regexps on contract keys (pkgpath::Name)
	// obligation selection: classes to include (empty = all); obligations of other
	// classes of the same functions belong to other properties.
	Classes         []string          `json:"classes"`
	ExcludeClasses  []string          `json:"exclude_classes"`
	EnsuresTags     []string          `json:"ensures_tags"` // if set, only ensures with these tag prefixes (+ all non-ensures per Classes)
	MinObligations  int               `json:"min_obligations"`
	Assumed         map[string]string `json:"assumed_obligations"` // obligation name -> reason (reported, not counted)
	Assumptions     []string          `json:"assumptions"`
	Unverified      []string          `json:"unverified"`
	QuickTimeoutS   int               `json:"quick_timeout_s"`
	Bounded         []BoundedSpec     `json:"bounded_standins"`
}

type BoundedSpec struct {
	Name  string `json:"name"`
	Cmd   string `json:"cmd"`
	Bound string `json:"bound"`
}

type knownFinding struct {
	Prop, Obligation, Text string
}

func loadKnownFindings(path string) []knownFinding {
	var out []knownFinding
	f, err := os.Open(path)
	if err != nil {
		return nil
	}
	defer f.Close()
	sc := bufio.NewScanner(f)
	for sc.Scan() {
		l := strings.TrimSpace(sc.Text())
		if !strings.HasPrefix(l, "finding:") {
			continue
		}
		kf := knownFinding{}
		rest := strings.TrimSpace(strings.TrimPrefix(l, "finding:"))
		fs := strings.Fields(rest)
		var words []string
		for _, w := range fs {
			switch {
			case strings.HasPrefix(w, "property="):
				kf.Prop = strings.TrimPrefix(w, "property=")
			case strings.HasPrefix(w, "obligation="):
				kf.Obligation = strings.TrimPrefix(w, "obligation=")
			default:
				words = append(words, w)
			}
		}
		kf.Text = strings.Join(words, " ")
		out = append(out, kf)
	}
	return out
}

func inList(xs []string, x string) bool {
	for _, y := range xs {
		if y == x {
			return true
		}
	}
	return false
}

func cmdCheck(args []string) {
	fs := flag.NewFlagSet("check", flag.ExitOnError)
	repo := fs.String("repo", "/repo", "")
	verif := fs.String("verif", "/verif", "")
	prop := fs.String("prop", "", "property id")
	tier := fs.String("tier", "quick", "quick|thorough")
	fs.Parse(args)
	if t := os.Getenv("VERIF_TIER"); t == "quick" || t == "thorough" {
		if !isFlagSet(fs, "tier") {
			*tier = t
		}
	}
	seed := 0
	if s := os.Getenv("VERIF_SEED"); s != "" {
		seed, _ = strconv.Atoi(s)
	}
	t0 := time.Now()
	machineryError := func(f string, a ...any) {
		fmt.Fprintf(os.Stderr, "MACHINERY-ERROR property=%s: %s\n", *prop, fmt.Sprintf(f, a...))
		os.Exit(2)
	}
	data, err := os.ReadFile(filepath.Join(*verif, "props", *prop+".json"))
	if err != nil {
		machineryError("%v", err)
	}
	var ps PropSpec
	if err := json.Unmarshal(data, &ps); err != nil {
		machineryError("props file: %v", err)
	}
	timeout := 40
	if ps.QuickTimeoutS > 0 {
		timeout = ps.QuickTimeoutS
	}
	if *tier == "thorough" {
		timeout = 60
	}
	P, err := LoadProg(*repo, ps.Packages, *verif)
	if err != nil {
		// a tree that does not compile is not a property violation
		machineryError("load: %v", err)
	}
	tLoad := time.Since(t0).Seconds()
	if len(contractWarnings) > 0 {
		machineryError("contract files: %s", strings.Join(contractWarnings, "; "))
	}
	var res []*regexp.Regexp
	for _, f := range ps.Functions {
		re, err := regexp.Compile("^(?:" + f + ")$")
		if err != nil {
			machineryError("bad function pattern %q: %v", f, err)
		}
		res = append(res, re)
	}
	var keys []string
	matched := make([]bool, len(res))
	for k, ct := range P.contracts {
		if ct.Extern || ct.Trusted || ct.IsPred {
			continue
		}
		for i, re := range res {
			if re.MatchString(k) {
				matched[i] = true
				keys = append(keys, k)
				break
			}
		}
	}
	for i, m := range matched {
		if !m {
			machineryError("function pattern %q matches no contract", ps.Functions[i])
		}
	}
	sort.Strings(keys)
	var onlyFiles []string
	if v := os.Getenv("VERIF_ONLY_FILES"); v != "" {
		onlyFiles = strings.Split(v, ",")
		ps.MinObligations = 0
	}
	var all []*Obligation
	var fnNames []string
	var havocSites []string
	lemmas := map[string]bool{}
	trusted := map[string]bool{}
	var missing []string
	var mismatched [][2]string
	for _, k := range keys {
		ct := P.contracts[k]
		f := P.findFunc(ct)
		if f == nil {
			// the function a contract names has disappeared or was renamed: the contract can
			// no longer be checked against the code
			missing = append(missing, k)
			continue
		}
		if len(onlyFiles) > 0 {
			// development aid (tools/seedrun.sh): verification is modular, so a change inside
			// a function body can only affect that function's own obligations; restrict the run
			// to the functions defined in the named files. Never used by the registered checks.
			fn := P.prog.Fset.Position(f.Pos()).Filename
			keep := false
			for _, of := range onlyFiles {
				if strings.HasSuffix(fn, of) {
					keep = true
				}
			}
			if !keep {
				continue
			}
		}
		c, err := verifyFunc(P, f, ct)
		if err != nil {
			// The code no longer has the shape the contract was written for (a loop the
			// contract gives an invariant for is gone, a local or field a clause names no
			// longer exists, a callee an at-call clause watches ...): the obligations cannot
			// even be generated. On a tree that type-checks this is a change of the code under
			// contract, reported like a vanished function - not a defect of the machinery
			// (contract files are validated against the unchanged tree before registration).
			if structuralMismatch(err.Error()) {
				mismatched = append(mismatched, [2]string{k, err.Error()})
				continue
			}
			machineryError("%s: %v", k, err)
		}
		fnNames = append(fnNames, c.fnName())
		for _, h := range c.havocs {
			havocSites = append(havocSites, c.fnName()+": "+h)
		}
		for l := range c.lemmasUsed {
			lemmas[l] = true
		}
		for t := range c.trustedUsed {
			trusted[t] = true
		}
		// vacuity guard: the function's assumptions at entry must be satisfiable
		all = append(all, c.obls...)
		if c.entryCheck != nil {
			all = append(all, c.entryCheck)
		}
	}
	all = append(all, lemmaObligations(P, lemmas)...)
	// select obligations of this property
	var sel []*Obligation
	for _, o := range all {
		if o.Class == "vacuity" {
			sel = append(sel, o)
			continue
		}
		if len(ps.Classes) > 0 && !inList(ps.Classes, o.Class) {
			continue
		}
		if inList(ps.ExcludeClasses, o.Class) {
			continue
		}
		if o.Class == "ensures" && len(ps.EnsuresTags) > 0 {
			// only the tagged postconditions listed for this property
			keep := false
			for _, t := range ps.EnsuresTags {
				if strings.Contains(o.Name, "#ensures."+t) {
					keep = true
				}
			}
			if !keep {
				continue
			}
		}
		sel = append(sel, o)
	}
	workers := 16
	dischargeAll(sel, timeout, *tier == "thorough", workers)
	known := loadKnownFindings(filepath.Join(*verif, "known_findings.txt"))
	isKnown := func(name string) *knownFinding {
		for i := range known {
			if known[i].Prop == *prop && known[i].Obligation == name {
				return &known[i]
			}
		}
		return nil
	}
	os.MkdirAll(filepath.Join(*verif, "evidence", "replays"), 0o755)
	obligations, discharged, violations := 0, 0, 0
	classes := map[string]int{}
	wins := map[string]int{}
	solverTime := 0.0
	var samples []any
	var knownHit []string
	var assumedHit []string
	var outLines []string
	type slow struct {
		n string
		t float64
	}
	var slows []slow
	for _, o := range sel {
		solverTime += o.Time
		if o.Class == "vacuity" {
			// expected: NOT unsat
			if o.Verdict == "unsat" {
				machineryError("vacuity: assumptions of %s are contradictory", o.Name)
			}
			continue
		}
		if o.Verdict == "disagree" {
			machineryError("solvers disagree on %s: %s", o.Name, o.Output)
		}
		if o.Verdict == "error" {
			machineryError("solver rejected the query for %s: %s", o.Name, firstLines(o.Output, 4))
		}
		if reason, ok := ps.Assumed[o.Name]; ok {
			assumedHit = append(assumedHit, o.Name+": "+reason)
			continue
		}
		if kf := isKnown(o.Name); kf != nil {
			if o.Verdict != "unsat" {
				knownHit = append(knownHit, o.Name)
				outLines = append(outLines, fmt.Sprintf("KNOWN-FINDING: property=%s %s: %s", *prop, o.Name, kf.Text))
				continue
			}
			// a listed finding that no longer fails is simply discharged
		}
		obligations++
		classes[o.Class]++
		slows = append(slows, slow{o.Name, o.Time})
		if o.Verdict == "unsat" {
			discharged++
			wins[o.Solver]++
			if len(samples) < 6 {
				samples = append(samples, map[string]any{"obligation": o.Name, "class": o.Class, "verdict": o.Verdict, "solver": o.Solver, "time_s": round3(o.Time), "smt_bytes": len(o.smt(false)), "what": o.Descr})
			}
			continue
		}
		violations++
		rp := writeReplay(P, *verif, *prop, o)
		suffix := ""
		if !rp.confirmed {
			suffix = " no-failing-input-found"
		}
		outLines = append(outLines, fmt.Sprintf("VIOLATION property=%s replay=%s obligation=%s verdict=%s%s", *prop, rp.path, o.Name, o.Verdict, suffix))
	}
	for _, mm := range mismatched {
		violations++
		obligations++
		rp := filepath.Join(*verif, "evidence", "replays", *prop+"-"+sanitize(mm[0])+".json")
		j, _ := json.MarshalIndent(map[string]any{"property": *prop, "obligation": mm[0] + "#shape", "reason": "the function no longer has the shape its contract describes; its obligations cannot be generated", "detail": mm[1]}, "", " ")
		os.WriteFile(rp, j, 0o644)
		outLines = append(outLines, fmt.Sprintf("VIOLATION property=%s replay=%s obligation=%s#shape no-failing-input-found", *prop, rp, mm[0]))
	}
	for _, k := range missing {
		violations++
		obligations++
		rp := filepath.Join(*verif, "evidence", "replays", *prop+"-"+sanitize(k)+".json")
		j, _ := json.MarshalIndent(map[string]any{"property": *prop, "obligation": k + "#exists", "reason": "the function under contract no longer exists in /repo (renamed or removed); its obligations cannot be generated"}, "", " ")
		os.WriteFile(rp, j, 0o644)
		outLines = append(outLines, fmt.Sprintf("VIOLATION property=%s replay=%s obligation=%s#exists no-failing-input-found", *prop, rp, k))
	}
	// bounded stand-ins (thorough tier only): executions of the real code over a stated
	// finite domain. Labelled bounded; never counted among the discharged obligations.
	var bounded []any
	if *tier == "thorough" {
		for _, bs := range ps.Bounded {
			tb0 := time.Now()
			cmd := exec.Command("sh", "-c", bs.Cmd)
			cmd.Dir = *verif
			outb, err := cmd.CombinedOutput()
			cases := 0
			for _, l := range strings.Split(string(outb), "\n") {
				if i := strings.Index(l, "AUDIT cases="); i >= 0 {
					n, _ := strconv.Atoi(strings.TrimSpace(l[i+len("AUDIT cases="):]))
					cases += n
				}
			}
			entry := map[string]any{"name": bs.Name, "bound": bs.Bound, "cmd": bs.Cmd, "cases": cases, "passed": err == nil, "wall_s": round3(time.Since(tb0).Seconds()), "label": "bounded (not proof)"}
			bounded = append(bounded, entry)
			if err != nil {
				violations++
				rp := filepath.Join(*verif, "evidence", "replays", *prop+"-bounded-"+sanitize(bs.Name)+".json")
				j, _ := json.MarshalIndent(map[string]any{"property": *prop, "obligation": "bounded:" + bs.Name, "bound": bs.Bound, "replay_cmd": "cd " + *verif + " && " + bs.Cmd, "output": truncate(string(outb), 20000)}, "", " ")
				os.WriteFile(rp, j, 0o644)
				outLines = append(outLines, fmt.Sprintf("VIOLATION property=%s replay=%s obligation=bounded:%s", *prop, rp, bs.Name))
			}
		}
	}
	if obligations == 0 {
		machineryError("no obligations generated")
	}
	if ps.MinObligations > 0 && obligations+len(knownHit) < ps.MinObligations {
		machineryError("only %d obligations generated, expected at least %d (vacuity guard)", obligations, ps.MinObligations)
	}
	sort.Slice(slows, func(i, j int) bool { return slows[i].t > slows[j].t })
	var slowest []any
	for i := 0; i < len(slows) && i < 5; i++ {
		slowest = append(slowest, map[string]any{"obligation": slows[i].n, "time_s": round3(slows[i].t)})
	}
	var tb []string
	for t := range trusted {
		tb = append(tb, "assumed contract: "+t)
	}
	sort.Strings(tb)
	tb = append(tb, "govc VC generator (SSA translation, memory model: DESIGN.md §4)", "SMT solvers z3 5.1.0 / cvc5 1.0.3 / z3 4.8.12", "go/ssa (golang.org/x/tools v0.50.0) as the semantics of the compiled code", "amd64 integer widths (int = 64 bit); bit-vector arithmetic exactly as Go defines it")
	sort.Strings(havocSites)
	ev := map[string]any{
		"property_id": *prop, "tier": *tier, "seed": seed, "level": "proof",
		"coverage": map[string]any{
			"obligations": obligations, "discharged": discharged,
			"checker_cmd": fmt.Sprintf("/verif/bin/govc check -prop %s -tier %s", *prop, *tier),
			"trusted_base": tb, "samples": samples,
			"functions_under_contract": fnNames, "obligation_classes": classes, "backend_wins": wins,
			"solver_time_s": round3(solverTime), "slowest": slowest, "havoc_sites": havocSites,
			"assumed_obligations": assumedHit, "known_findings_reported": knownHit,
			"lemmas": sortedKeys(lemmas), "load_s": round3(tLoad), "unverified": ps.Unverified,
			"obligation_selection": map[string]any{"classes": ps.Classes, "exclude_classes": ps.ExcludeClasses},
			"bounded_standins":     bounded,
		},
		"assumptions": append([]string{}, ps.Assumptions...),
		"wall_s":      round3(time.Since(t0).Seconds()),
		"violations":  violations,
	}
	j, _ := json.MarshalIndent(ev, "", " ")
	if err := os.WriteFile(filepath.Join(*verif, "evidence", *prop+".json"), j, 0o644); err != nil {
		machineryError("%v", err)
	}
	for _, l := range outLines {
		fmt.Println(l)
	}
	fmt.Printf("property=%s tier=%s functions=%d obligations=%d discharged=%d known_findings=%d violations=%d wall=%.1fs\n", *prop, *tier, len(fnNames), obligations, discharged, len(knownHit), violations, time.Since(t0).Seconds())
	if violations > 0 {
		os.Exit(1)
	}
}

func round3(f float64) float64 { return float64(int(f*1000+0.5)) / 1000 }

func isFlagSet(fs *flag.FlagSet, name string) bool {
	set := false
	fs.Visit(func(f *flag.Flag) {
		if f.Name == name {
			set = true
		}
	})
	return set
}

type replayResult struct {
	path      string
	confirmed bool
}

// writeReplay stores what is known about a failed obligation: the obligation, the
// solver verdict and output (model when there is one) and the SMT query itself.
func writeReplay(P *Prog, verif, prop string, o *Obligation) replayResult {
	path := filepath.Join(verif, "evidence", "replays", prop+"-"+sanitize(o.Name)+".json")
	smtPath := strings.TrimSuffix(path, ".json") + ".smt2"
	os.WriteFile(smtPath, []byte(o.smt(true)), 0o644)
	r := map[string]any{"property": prop, "obligation": o.Name, "class": o.Class, "what": o.Descr, "verdict": o.Verdict,
		"solver": o.Solver, "solver_output": truncate(o.Output, 20000), "smt_file": smtPath}
	if o.Fn != nil && o.Pos.IsValid() {
		r["source"] = P.prog.Fset.Position(o.Pos).String()
	}
	res := replayResult{path: path}
	if o.Fn != nil && (o.Verdict == "sat" || o.Model != "") {
		if rp := tryReplay(P, verif, prop, o); rp != nil {
			for k, v := range rp {
				r[k] = v
			}
			if c, ok := rp["confirmed"].(bool); ok && c {
				res.confirmed = true
			}
		}
	}
	j, _ := json.MarshalIndent(r, "", " ")
	os.WriteFile(path, j, 0o644)
	return res
}

func truncate(s string, n int) string {
	if len(s) > n {
		return s[:n] + "...[truncated]"
	}
	return s
}

// structuralMismatch: generator errors that mean "the code under contract changed shape".
func structuralMismatch(msg string) bool {
	for _, p := range []string{"names loop", "unknown identifier", "has no field", "unknown field", "not an lvalue", "matches no call"} {
		if strings.Contains(msg, p) {
			return true
		}
	}
	return false
}
