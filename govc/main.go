package main

import (
	"flag"
	"fmt"
	"os"
	"path/filepath"
	"regexp"
	"runtime"
	"sort"
	"strings"
	"time"

	"go/types"

	"golang.org/x/tools/go/ssa"
)

func newFnVC(P *Prog, f *ssa.Function, ct *Contract) *FnVC {
	return &FnVC{P: P, fn: f, ct: ct, te: newTypeEnv(), vals: map[ssa.Value]string{}, tuples: map[ssa.Value][]string{},
		reach: map[*ssa.BasicBlock]string{}, heapOut: map[*ssa.BasicBlock]HeapState{}, lazy: map[string]*lazySym{},
		classN: map[string]int{}, loops: map[*ssa.BasicBlock]*loopInfo{}, latchOf: map[*ssa.BasicBlock][]*loopInfo{},
		lemmasUsed: map[string]bool{}, invSeen: map[string]bool{}, trustedUsed: map[string]bool{}, globals: map[*ssa.Global]int{}, debug: map[types.Object][]*ssa.DebugRef{}, closures: map[ssa.Value]*ssa.MakeClosure{}, callN: map[string]int{}}
}

// verifyFunc generates the obligations of one function; panics in the generator are
// machinery errors.
func verifyFunc(P *Prog, f *ssa.Function, ct *Contract) (c *FnVC, err error) {
	c = newFnVC(P, f, ct)
	splitCtx.P = P
	if f.Pkg != nil {
		splitCtx.pkg = f.Pkg.Pkg.Path()
	}
	defer func() {
		if r := recover(); r != nil {
			buf := make([]byte, 4096)
			n := runtime.Stack(buf, false)
			err = fmt.Errorf("generator panic in %s: %v\n%s", f.String(), r, buf[:n])
		}
	}()
	c.run()
	c.applySplits()
	if len(c.errs) > 0 {
		return c, fmt.Errorf("%s", strings.Join(c.errs, "\n"))
	}
	return c, nil
}

func main() {
	if len(os.Args) < 2 {
		fmt.Fprintln(os.Stderr, "usage: govc verify|check ...")
		os.Exit(2)
	}
	switch os.Args[1] {
	case "verify":
		cmdVerify(os.Args[2:])
	case "check":
		cmdCheck(os.Args[2:])
	case "ssa":
		cmdSSA(os.Args[2:])
	case "replay":
		cmdReplay(os.Args[2:])
	default:
		fmt.Fprintln(os.Stderr, "unknown command")
		os.Exit(2)
	}
}

func cmdSSA(args []string) {
	fs := flag.NewFlagSet("ssa", flag.ExitOnError)
	repo := fs.String("repo", "/repo", "")
	pk := fs.String("pkgs", "", "comma separated package patterns")
	fn := fs.String("func", ".", "regexp on function name")
	fs.Parse(args)
	P, err := LoadProg(*repo, strings.Split(*pk, ","), "/verif")
	if err != nil {
		fmt.Fprintln(os.Stderr, err)
		os.Exit(2)
	}
	re := regexp.MustCompile(*fn)
	for _, sp := range P.spkgs {
		for _, f := range allFuncs(P.prog, sp) {
			if re.MatchString(f.RelString(sp.Pkg)) {
				f.WriteTo(os.Stdout)
			}
		}
	}
}

// cmdVerify: development entry point.
func cmdVerify(args []string) {
	fs := flag.NewFlagSet("verify", flag.ExitOnError)
	repo := fs.String("repo", "/repo", "")
	pk := fs.String("pkgs", "", "comma separated package patterns")
	fn := fs.String("func", ".", "regexp on contract key")
	dump := fs.String("dump", "", "directory for SMT files of failed obligations")
	dumpAll := fs.Bool("dumpall", false, "dump every obligation")
	timeout := fs.Int("timeout", 10, "seconds per obligation")
	verbose := fs.Bool("v", false, "")
	workers := fs.Int("workers", 3, "parallel solver processes")
	full := fs.Bool("full", false, "use the full solver portfolio (default: light hedge)")
	doReplay := fs.Bool("replay", false, "try to replay failed obligations on the real code")
	only := fs.String("only", "", "regexp on obligation names: discharge only the matching obligations (development aid)")
	stream := fs.Bool("stream", false, "print each verdict as soon as it is known")
	fs.Parse(args)
	streamVerdicts = *stream
	t0 := time.Now()
	P, err := LoadProg(*repo, strings.Split(*pk, ","), "/verif")
	if err != nil {
		fmt.Fprintln(os.Stderr, err)
		os.Exit(2)
	}
	fmt.Printf("loaded in %.1fs, %d contracts\n", time.Since(t0).Seconds(), len(P.contracts))
	for _, w := range contractWarnings {
		fmt.Println("WARNING:", w)
	}
	re := regexp.MustCompile(*fn)
	var keys []string
	for k, ct := range P.contracts {
		if ct.Extern || ct.Trusted || ct.IsPred {
			continue
		}
		if re.MatchString(k) {
			keys = append(keys, k)
		}
	}
	sort.Strings(keys)
	var all []*Obligation
	lemmas := map[string]bool{}
	bad := 0
	for _, k := range keys {
		ct := P.contracts[k]
		f := P.findFunc(ct)
		if f == nil {
			fmt.Printf("ERROR: contract %s: function not found\n", k)
			bad++
			continue
		}
		c, err := verifyFunc(P, f, ct)
		if err != nil {
			fmt.Printf("ERROR: %s: %v\n", k, err)
			bad++
			continue
		}
		if *verbose {
			fmt.Printf("%s: %d obligations, %d havoc sites\n", k, len(c.obls), len(c.havocs))
			for _, h := range c.havocs {
				fmt.Printf("    havoc: %s\n", h)
			}
		}
		all = append(all, c.obls...)
		for l := range c.lemmasUsed {
			lemmas[l] = true
		}
	}
	all = append(all, lemmaObligations(P, lemmas)...)
	if *only != "" {
		ore := regexp.MustCompile(*only)
		var sel []*Obligation
		for _, o := range all {
			if ore.MatchString(o.Name) {
				sel = append(sel, o)
			}
		}
		fmt.Printf("-only: %d of %d obligations selected\n", len(sel), len(all))
		all = sel
	}
	t1 := time.Now()
	hedgeLight = !*full
	dischargeAll(all, *timeout, false, *workers)
	fail := 0
	for _, o := range all {
		if *dumpAll && *dump != "" {
			os.MkdirAll(*dump, 0o755)
			os.WriteFile(filepath.Join(*dump, sanitize(o.Name)+".smt2"), []byte(o.smt(true)), 0o644)
		}
		if o.Verdict != "unsat" {
			fail++
			fmt.Printf("FAIL %-8s %s  [%s] %s\n", o.Verdict, o.Name, o.Solver, o.Descr)
			if *doReplay {
				os.MkdirAll("/tmp/govc-dev/evidence/replays", 0o755)
				rp := writeReplay(P, "/tmp/govc-dev", "DEV", o)
				data, _ := os.ReadFile(rp.path)
				fmt.Printf("  replay confirmed=%v %s\n%s\n", rp.confirmed, rp.path, truncate(string(data), 3000))
			}
			if *dump != "" {
				os.MkdirAll(*dump, 0o755)
				os.WriteFile(filepath.Join(*dump, sanitize(o.Name)+".smt2"), []byte(o.smt(true)), 0o644)
			}
		} else if *verbose {
			fmt.Printf("ok   %-8s %s  [%s %.2fs]\n", o.Verdict, o.Name, o.Solver, o.Time)
		}
	}
	fmt.Printf("%d functions, %d obligations, %d failed, %d errors, solve %.1fs\n", len(keys), len(all), fail, bad, time.Since(t1).Seconds())
	if fail > 0 || bad > 0 {
		os.Exit(1)
	}
}



// lemmaObligations: every lemma used by a contract is proved as its own obligation.
func lemmaObligations(P *Prog, used map[string]bool) []*Obligation {
	var names []string
	for n := range used {
		names = append(names, n)
	}
	sort.Strings(names)
	var out []*Obligation
	for _, n := range names {
		sf := P.specs[n]
		if sf == nil || !sf.isLemma {
			continue
		}
		hasSeq := false
		for _, p := range sf.params {
			if p == seqT {
				hasSeq = true
			}
		}
		variants := []string{""}
		if hasSeq {
			variants = []string{"", "_a"}
		}
		te := newTypeEnv()
		for _, v := range variants {
			var b strings.Builder
			b.WriteString(prelude)
			b.WriteString(P.specText[sf.file])
			var args []string
			for i, p := range sf.params {
				if p == seqT {
					if v == "" {
						fmt.Fprintf(&b, "(declare-const lh%d (Array Loc (_ BitVec 8)))\n(declare-const ls%d Slice)\n(assert (wf ls%d))\n", i, i, i)
						args = append(args, fmt.Sprintf("lh%d ls%d", i, i))
					} else {
						fmt.Fprintf(&b, "(declare-const la%d (Array (_ BitVec 64) (_ BitVec 8)))\n", i)
						args = append(args, fmt.Sprintf("la%d", i))
					}
					continue
				}
				fmt.Fprintf(&b, "(declare-const lx%d %s)\n", i, te.sortOf(p))
				args = append(args, fmt.Sprintf("lx%d", i))
			}
			fmt.Fprintf(&b, "(assert (not (%s%s %s)))\n(check-sat)\n", sf.name, v, strings.Join(args, " "))
			out = append(out, &Obligation{Name: "lemma." + sf.name + v, Class: "lemma", Raw: b.String(), Goal: "lemma", Descr: "spec lemma " + sf.name + v + " holds for all arguments"})
		}
	}
	return out
}
