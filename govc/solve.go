package main

import (
	"bytes"
	"context"
	"fmt"
	"os"
	"os/exec"
	"sort"
	"strings"
	"sync"
	"time"
)

// noSkolem switches goal skolemisation off (GOVC_NOSKOLEM=1, for comparison runs).
var noSkolem = os.Getenv("GOVC_NOSKOLEM") == "1"

type solverSpec struct {
	name string
	argv func(timeoutS int) []string
}

// The primary configuration (relevancy filtering off) decided every obligation of the
// first 690 within 10 s where the default configuration timed out on 6; the others are
// raced only on what the primary leaves undecided.
var solvers = []solverSpec{
	{"z3-new", func(t int) []string {
		return []string{"z3-new", "-in", "-smt2", fmt.Sprintf("-T:%d", t), "smt.relevancy=0"}
	}},
	{"z3-new-default", func(t int) []string { return []string{"z3-new", "-in", "-smt2", fmt.Sprintf("-T:%d", t)} }},
	{"z3-new-euf", func(t int) []string {
		return []string{"z3-new", "-in", "-smt2", fmt.Sprintf("-T:%d", t), "sat.euf=true", "tactic.default_tactic=smt"}
	}},
	{"cvc5", func(t int) []string {
		return []string{"cvc5", "--lang=smt2", "--incremental", fmt.Sprintf("--tlimit=%d", t*1000), "-"}
	}},
	{"z3", func(t int) []string { return []string{"z3", "-in", "-smt2", fmt.Sprintf("-T:%d", t)} }},
}

func (o *Obligation) smt(withModel bool) string { return o.smtV(withModel, !noSkolem) }

// smtV: the query, with the goal's universal quantifiers skolemised or left to the solver.
// Neither form is uniformly better for z3's trigger matching, so the portfolio races both.
func (o *Obligation) smtV(withModel, skolem bool) string { return o.smtP(withModel, skolem, false) }

// smtP: additionally with the heap frame axioms outside the goal's cone removed (prune.go).
func (o *Obligation) smtP(withModel, skolem, prune bool) string {
	if o.Raw != "" {
		return o.Raw
	}
	c := o.Fn
	var b strings.Builder
	b.WriteString(preludeFor(c))
	for _, d := range c.te.decls {
		b.WriteString(d)
		b.WriteByte('\n')
	}
	var files []string
	for f := range c.specFiles {
		files = append(files, f)
	}
	sort.Strings(files)
	for _, f := range files {
		b.WriteString(c.P.specText[f])
		b.WriteByte('\n')
	}
	goal := o.Goal
	var skd []string
	if skolem {
		if o.skGoal == "" {
			o.skGoal, o.skDecls = skolemizeGoal(o.Goal)
		}
		goal = o.skGoal
		skd = o.skDecls
	}
	lines := c.out[:o.Prefix]
	if prune {
		tail := o.Guard + " " + goal + " " + strings.Join(o.Extra, " ")
		lines, _ = pruneHeapAxioms(lines, tail)
	}
	for _, l := range lines {
		b.WriteString(l)
		b.WriteByte('\n')
	}
	for _, l := range o.Extra {
		b.WriteString(l)
		b.WriteByte('\n')
	}
	fmt.Fprintf(&b, "; goal %s\n", o.Name)
	for _, d := range skd {
		b.WriteString(d)
		b.WriteByte('\n')
	}
	fmt.Fprintf(&b, "(assert %s)\n(assert (not %s))\n(check-sat)\n", o.Guard, goal)
	if withModel {
		b.WriteString("(get-model)\n")
	}
	return b.String()
}

// dropQuantified removes the quantified background axioms (frames, zero-initialisation).
// A model of the remainder is only a *candidate* counterexample.
func dropQuantified(smt string) string {
	var b strings.Builder
	for _, l := range strings.Split(smt, "\n") {
		if strings.HasPrefix(l, "(assert (forall") || strings.HasPrefix(l, "(assert (=> ") && strings.Contains(l, "(forall ((") {
			continue
		}
		b.WriteString(l)
		b.WriteByte('\n')
	}
	return b.String()
}

func runSolver(s solverSpec, input string, timeoutS int) (verdict, output string, secs float64) {
	slot := acquireSlot()
	defer releaseSlot(slot)
	ctx, cancel := context.WithTimeout(context.Background(), time.Duration(timeoutS+2)*time.Second)
	defer cancel()
	argv := s.argv(timeoutS)
	cmd := exec.CommandContext(ctx, argv[0], argv[1:]...)
	cmd.Stdin = strings.NewReader(input)
	var out bytes.Buffer
	cmd.Stdout = &out
	cmd.Stderr = &out
	t0 := time.Now()
	_ = cmd.Run()
	secs = time.Since(t0).Seconds()
	output = dropWarnings(out.String())
	first := strings.TrimSpace(strings.SplitN(output, "\n", 2)[0])
	switch first {
	case "unsat", "sat", "unknown":
		verdict = first
	case "timeout":
		verdict = "timeout"
	default:
		if ctx.Err() != nil {
			verdict = "timeout"
		} else if strings.Contains(output, "error") {
			verdict = "error"
		} else {
			verdict = "unknown"
		}
	}
	return
}

// phase 1: the primary solver alone, one process per worker.
func dischargePrimary(o *Obligation, timeoutS int) {
	if o.Goal == "true" {
		o.Verdict, o.Solver = "unsat", "trivial"
		return
	}
	if o.Class == "vacuity" {
		// only "unsat" matters here (contradictory assumptions); keep it cheap
		v, out, t := runSolver(solvers[0], o.smt(false), 2)
		o.Verdict, o.Solver, o.Output, o.Time = v, solvers[0].name, out, t
		return
	}
	dischargeHedged(o, timeoutS)
}

// phase 2 (only for obligations the primary solver did not decide): the other solvers,
// then a candidate-model search without the quantified axioms.
func dischargeFallback(o *Obligation, timeoutS int) {
	if o.Class == "vacuity" || o.Verdict == "unsat" || o.Verdict == "sat" {
		return
	}
	type res struct {
		v, out, name string
		t          float64
	}
	noModel := o.smt(false)
	ch := make(chan res, len(solvers))
	for _, s := range solvers[1:] {
		s := s
		go func() {
			v, out, t := runSolver(s, noModel, timeoutS)
			ch <- res{v, out, s.name, t}
		}()
	}
	outs := []string{solvers[0].name + ": " + o.Verdict + " " + firstLines(o.Output, 2)}
	decided := false
	for range solvers[1:] {
		r := <-ch
		o.Time += r.t
		outs = append(outs, r.name+": "+r.v+" "+firstLines(r.out, 2))
		if !decided && (r.v == "unsat" || r.v == "sat") {
			o.Verdict, o.Solver, o.Output = r.v, r.name, r.out
			decided = true
		}
	}
	if decided {
		return
	}
	o.Verdict = "unknown"
	o.Output = strings.Join(outs, "\n")
	if o.Raw == "" {
		v, out, t := runSolver(solvers[0], dropQuantified(o.smt(true)), 10)
		o.Time += t
		if v == "sat" {
			o.Model = out
			o.Output += "\ncandidate model (quantified background axioms dropped):\n" + out
		}
	}
}

func crossCheck(o *Obligation, timeoutS int) {
	if o.Verdict != "unsat" || o.Class == "vacuity" || o.Goal == "true" {
		return
	}
	in := o.smt(false)
	for _, s := range solvers[1:] {
		if s.name == o.Solver || strings.HasPrefix(s.name, "z3-new") {
			continue
		}
		v, _, t := runSolver(s, in, timeoutS)
		o.Time += t
		if v == "sat" {
			o.Verdict = "disagree"
			o.Output += "\n" + s.name + " reports sat while " + o.Solver + " reports unsat"
		}
	}
}

func firstLines(s string, n int) string {
	ls := strings.Split(strings.TrimSpace(s), "\n")
	if len(ls) > n {
		ls = ls[:n]
	}
	return strings.Join(ls, " | ")
}

func parallel(obls []*Obligation, workers int, f func(*Obligation)) {
	var wg sync.WaitGroup
	ch := make(chan *Obligation)
	for i := 0; i < workers; i++ {
		wg.Add(1)
		go func() {
			defer wg.Done()
			for o := range ch {
				f(o)
			}
		}()
	}
	for _, o := range obls {
		ch <- o
	}
	close(ch)
	wg.Wait()
}

// streamVerdicts (verify -stream): print each obligation's verdict as soon as it is final.
var streamVerdicts bool
var streamMu sync.Mutex

func streamOut(o *Obligation, phase string) {
	if !streamVerdicts {
		return
	}
	streamMu.Lock()
	fmt.Printf("  .. %-8s %s  [%s %.2fs %s]\n", o.Verdict, o.Name, o.Solver, o.Time, phase)
	streamMu.Unlock()
}

func dischargeAll(obls []*Obligation, timeoutS int, cross bool, workers int) {
	parallel(obls, workers, func(o *Obligation) {
		dischargePrimary(o, timeoutS)
		if o.Verdict == "unsat" || o.Verdict == "sat" {
			streamOut(o, "primary")
		} else {
			streamOut(o, "primary, will be retried")
		}
	})
	var rest []*Obligation
	for _, o := range obls {
		if o.Class != "vacuity" && o.Verdict != "unsat" && o.Verdict != "sat" {
			rest = append(rest, o)
		}
	}
	// Undecided obligations are tried once more, two at a time, so that a verdict never
	// hinges on the load the check itself created in the parallel phase.
	parallel(rest, 2, func(o *Obligation) {
		t := o.Time
		o.Verdict, o.Model, o.Output = "", "", ""
		dischargeHedged(o, timeoutS)
		o.Time += t
		streamOut(o, "retry")
	})
	if cross {
		parallel(obls, 8, func(o *Obligation) { crossCheck(o, timeoutS) })
	}
}
