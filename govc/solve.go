package main

import (
	"bytes"
	"context"
	"fmt"
	"os/exec"
	"sort"
	"strings"
	"sync"
	"time"
)

type solverSpec struct {
	name string
	argv func(timeoutS int) []string
}

var solvers = []solverSpec{
	{"z3-new", func(t int) []string { return []string{"z3-new", "-in", "-smt2", fmt.Sprintf("-T:%d", t)} }},
	{"cvc5", func(t int) []string {
		return []string{"cvc5", "--lang=smt2", "--incremental", fmt.Sprintf("--tlimit=%d", t*1000), "-"}
	}},
	{"z3", func(t int) []string { return []string{"z3", "-in", "-smt2", fmt.Sprintf("-T:%d", t)} }},
}

func (o *Obligation) smt(withModel bool) string {
	if o.Raw != "" {
		return o.Raw
	}
	c := o.Fn
	var b strings.Builder
	b.WriteString(prelude)
	for _, d := range c.te.decls {
		b.WriteString(d)
		b.WriteByte('\n')
	}
	var files []string
	for f := range c.specFiles {
		files = append(files, f)
	}
	sort.Strings(files)
	for _, f := range files {
		b.WriteString(c.P.specText[f])
		b.WriteByte('\n')
	}
	for _, l := range c.out[:o.Prefix] {
		b.WriteString(l)
		b.WriteByte('\n')
	}
	for _, l := range o.Extra {
		b.WriteString(l)
		b.WriteByte('\n')
	}
	fmt.Fprintf(&b, "; goal %s\n", o.Name)
	fmt.Fprintf(&b, "(assert %s)\n(assert (not %s))\n(check-sat)\n", o.Guard, o.Goal)
	if withModel {
		b.WriteString("(get-model)\n")
	}
	return b.String()
}

func runSolver(s solverSpec, input string, timeoutS int) (verdict, output string, secs float64) {
	ctx, cancel := context.WithTimeout(context.Background(), time.Duration(timeoutS+2)*time.Second)
	defer cancel()
	argv := s.argv(timeoutS)
	cmd := exec.CommandContext(ctx, argv[0], argv[1:]...)
	cmd.Stdin = strings.NewReader(input)
	var out bytes.Buffer
	cmd.Stdout = &out
	cmd.Stderr = &out
	t0 := time.Now()
	_ = cmd.Run()
	secs = time.Since(t0).Seconds()
	output = out.String()
	first := strings.TrimSpace(strings.SplitN(output, "\n", 2)[0])
	switch first {
	case "unsat", "sat", "unknown":
		verdict = first
	case "timeout":
		verdict = "timeout"
	default:
		if ctx.Err() != nil {
			verdict = "timeout"
		} else if strings.Contains(output, "error") {
			verdict = "error"
		} else {
			verdict = "unknown"
		}
	}
	return
}

// discharge runs the portfolio on one obligation.
func discharge(o *Obligation, timeoutS int, cross bool) {
	// trivial goals
	if o.Goal == "true" {
		o.Verdict, o.Solver = "unsat", "trivial"
		return
	}
	input := o.smt(true)
	quick := 4
	if quick > timeoutS {
		quick = timeoutS
	}
	v, out, t := runSolver(solvers[0], input, quick)
	o.Time = t
	if v == "unsat" || v == "sat" {
		o.Verdict, o.Solver, o.Output = v, solvers[0].name, out
		if v == "sat" {
			o.Model = out
		}
		if cross && v == "unsat" {
			crossCheck(o, timeoutS)
		}
		return
	}
	// race all
	type res struct {
		v, out, name string
		t          float64
	}
	ch := make(chan res, len(solvers))
	noModel := o.smt(false)
	for _, s := range solvers {
		s := s
		go func() {
			in := input
			if s.name != "z3-new" {
				in = noModel
			}
			v, out, t := runSolver(s, in, timeoutS)
			ch <- res{v, out, s.name, t}
		}()
	}
	var last res
	var outs []string
	for range solvers {
		r := <-ch
		o.Time += r.t
		outs = append(outs, r.name+": "+r.v+" "+firstLines(r.out, 3))
		if r.v == "unsat" || r.v == "sat" {
			o.Verdict, o.Solver, o.Output = r.v, r.name, r.out
			if r.v == "sat" {
				o.Model = r.out
			}
			return
		}
		last = r
	}
	_ = last
	o.Verdict = "unknown"
	o.Output = strings.Join(outs, "\n")
	// z3 keeps a candidate model after "unknown (incomplete quantifiers)": keep it for replay
	for _, ou := range outs {
		_ = ou
	}
}

func crossCheck(o *Obligation, timeoutS int) {
	in := o.smt(false)
	for _, s := range solvers[1:] {
		v, _, _ := runSolver(s, in, timeoutS)
		if v == "sat" {
			o.Verdict = "disagree"
			o.Output += "\n" + s.name + " reports sat while z3-new reports unsat"
		}
	}
}

func firstLines(s string, n int) string {
	ls := strings.Split(s, "\n")
	if len(ls) > n {
		ls = ls[:n]
	}
	return strings.Join(ls, " | ")
}

func dischargeAll(obls []*Obligation, timeoutS int, cross bool, workers int) {
	var wg sync.WaitGroup
	ch := make(chan *Obligation)
	for i := 0; i < workers; i++ {
		wg.Add(1)
		go func() {
			defer wg.Done()
			for o := range ch {
				discharge(o, timeoutS, cross)
			}
		}()
	}
	for _, o := range obls {
		ch <- o
	}
	close(ch)
	wg.Wait()
}
