package main

// AST-level expansion of pred macros so that a conjunction hidden behind a pred
// (e.g. a representation invariant) is split into one obligation per conjunct.

import (
	"go/ast"
	"go/token"
)

// splitCtx is set while obligations of a function are generated (single-threaded).
var splitCtx struct {
	P   *Prog
	pkg string
}

func lookupPred(name string) *Contract {
	if splitCtx.P == nil {
		return nil
	}
	if pc := splitCtx.P.contracts[splitCtx.pkg+"::pred "+name]; pc != nil && pc.IsPred && !pc.IsGlobal && pc.PredBody != nil {
		return pc
	}
	if pc := splitCtx.P.contracts["::pred "+name]; pc != nil && pc.IsPred && !pc.IsGlobal && pc.PredBody != nil {
		return pc
	}
	return nil
}

// expandPredCall returns the body of pred call x with parameters replaced by the
// argument expressions, or nil if x is not a pred call.
func expandPredCall(x *ast.CallExpr) ast.Expr {
	id, ok := x.Fun.(*ast.Ident)
	if !ok {
		return nil
	}
	pc := lookupPred(id.Name)
	if pc == nil || len(pc.PredParams) != len(x.Args) {
		return nil
	}
	sub := map[string]ast.Expr{}
	for i, p := range pc.PredParams {
		sub[p] = x.Args[i]
	}
	return substExpr(pc.PredBody.Expr, sub)
}

func substExpr(e ast.Expr, sub map[string]ast.Expr) ast.Expr {
	switch x := e.(type) {
	case nil:
		return nil
	case *ast.Ident:
		if r, ok := sub[x.Name]; ok {
			return &ast.ParenExpr{X: r}
		}
		return x
	case *ast.ParenExpr:
		return &ast.ParenExpr{X: substExpr(x.X, sub)}
	case *ast.SelectorExpr:
		return &ast.SelectorExpr{X: substExpr(x.X, sub), Sel: x.Sel}
	case *ast.StarExpr:
		return &ast.StarExpr{X: substExpr(x.X, sub)}
	case *ast.UnaryExpr:
		return &ast.UnaryExpr{Op: x.Op, X: substExpr(x.X, sub)}
	case *ast.BinaryExpr:
		return &ast.BinaryExpr{X: substExpr(x.X, sub), Op: x.Op, Y: substExpr(x.Y, sub)}
	case *ast.IndexExpr:
		return &ast.IndexExpr{X: substExpr(x.X, sub), Index: substExpr(x.Index, sub)}
	case *ast.SliceExpr:
		return &ast.SliceExpr{X: substExpr(x.X, sub), Low: substExpr(x.Low, sub), High: substExpr(x.High, sub), Max: substExpr(x.Max, sub), Slice3: x.Slice3}
	case *ast.CallExpr:
		n := &ast.CallExpr{Fun: x.Fun}
		// quantifiers bind their first argument: do not substitute it, and shadow it
		if id, ok := x.Fun.(*ast.Ident); ok && (id.Name == "forall" || id.Name == "exists" || id.Name == "forallv") && len(x.Args) > 0 {
			inner := sub
			if v, ok := x.Args[0].(*ast.Ident); ok {
				if _, clash := sub[v.Name]; clash {
					inner = map[string]ast.Expr{}
					for k, e := range sub {
						if k != v.Name {
							inner[k] = e
						}
					}
				}
			}
			n.Args = append(n.Args, x.Args[0])
			for i, a := range x.Args[1:] {
				if id.Name == "forallv" && i == 0 {
					n.Args = append(n.Args, a) // the type argument
					continue
				}
				n.Args = append(n.Args, substExpr(a, inner))
			}
			return n
		}
		if sel, ok := x.Fun.(*ast.SelectorExpr); ok {
			n.Fun = &ast.SelectorExpr{X: substExpr(sel.X, sub), Sel: sel.Sel}
		}
		for _, a := range x.Args {
			n.Args = append(n.Args, substExpr(a, sub))
		}
		return n
	}
	return e
}

// splitConjDeep is splitConj that also looks through pred macros whose body is a conjunction.
func splitConjDeep(e ast.Expr, depth int) []ast.Expr {
	var out []ast.Expr
	for _, c := range splitConj(e) {
		if call, ok := c.(*ast.CallExpr); ok && depth < 4 {
			if body := expandPredCall(call); body != nil {
				if parts := splitConjDeep(body, depth+1); len(parts) > 1 {
					out = append(out, parts...)
					continue
				}
			}
			// imp(a, pred(...)) with a conjunction behind the pred
			if id, ok := call.Fun.(*ast.Ident); ok && id.Name == "imp" && len(call.Args) == 2 {
				if rc, ok := call.Args[1].(*ast.CallExpr); ok {
					if body := expandPredCall(rc); body != nil {
						if parts := splitConjDeep(body, depth+1); len(parts) > 1 {
							for _, p := range parts {
								out = append(out, &ast.CallExpr{Fun: call.Fun, Args: []ast.Expr{call.Args[0], p}})
							}
							continue
						}
					}
				}
			}
		}
		out = append(out, c)
	}
	return out
}

var _ = token.NoPos
