package main

// Machine-wide limit on concurrently running solver processes. Several govc instances
// may run at once (development agents, parallel checks); without a common limit they
// oversubscribe the machine and every wall-clock guard fires. A solver process holds an
// flock on one of N slot files for its lifetime.

import (
	"fmt"
	"os"
	"runtime"
	"syscall"
	"time"
)

var slotDir = "/tmp/govc-slots"

func acquireSlot() *os.File {
	n := runtime.NumCPU() - 2
	if n < 2 {
		n = 2
	}
	if err := os.MkdirAll(slotDir, 0o777); err != nil {
		return nil
	}
	os.Chmod(slotDir, 0o777)
	for {
		for i := 0; i < n; i++ {
			f, err := os.OpenFile(fmt.Sprintf("%s/slot-%d", slotDir, i), os.O_CREATE|os.O_RDWR, 0o666)
			if err != nil {
				return nil
			}
			if syscall.Flock(int(f.Fd()), syscall.LOCK_EX|syscall.LOCK_NB) == nil {
				return f
			}
			f.Close()
		}
		time.Sleep(40 * time.Millisecond)
	}
}

func releaseSlot(f *os.File) {
	if f != nil {
		syscall.Flock(int(f.Fd()), syscall.LOCK_UN)
		f.Close()
	}
}
