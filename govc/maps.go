package main

// Maps, boxing functions and ghost components of the type environment; map instructions.

import (
	"fmt"
	"go/types"
	"sort"
	"strings"

	"golang.org/x/tools/go/ssa"
)

func (mi *mapInfo) domK() string { return fmt.Sprintf("mapdom:%d", mi.id) }
func (mi *mapInfo) valK() string { return fmt.Sprintf("mapval:%d", mi.id) }
func (mi *mapInfo) lenK() string { return fmt.Sprintf("maplen:%d", mi.id) }

func (te *TypeEnv) mapOf(m *types.Map) *mapInfo {
	key := m.String()
	if mi, ok := te.maps[key]; ok {
		return mi
	}
	mi := &mapInfo{id: len(te.maps) + 1, k: m.Key(), v: m.Elem(), ksort: te.sortOf(m.Key()), vsort: te.sortOf(m.Elem())}
	mi.vzero = te.zeroOf(m.Elem())
	te.maps[key] = mi
	return mi
}

func (te *TypeEnv) mapByID(id int) *mapInfo {
	for _, mi := range te.maps {
		if mi.id == id {
			return mi
		}
	}
	return nil
}

var ghostComps = map[string][]string{}

func (te *TypeEnv) ghostComp(name string, sorts []string) string {
	k := "ghost:" + name
	if _, ok := te.ghosts[k]; !ok {
		if te.ghosts == nil {
			te.ghosts = map[string][]string{}
		}
		te.ghosts[k] = sorts
		// declare the relation sort and accessor
		rs := "G_" + sanitize(name)
		var ps []string
		for i, s := range sorts {
			ps = append(ps, fmt.Sprintf("(a%d %s)", i, s))
		}
		te.decls = append(te.decls, fmt.Sprintf("(declare-sort %s 0)", rs),
			fmt.Sprintf("(declare-fun %s_get (%s %s) Bool)", sanitize(k), rs, strings.Join(sorts, " ")))
	}
	return k
}

// mapComp returns the sort of a map / ghost component, or "".
func (te *TypeEnv) mapComp(k string) string {
	switch k {
	case "ghost:llen": // container/list: number of elements of the list at a *List
		return "(Array Loc (_ BitVec 64))"
	case "ghost:lseq": // container/list: the elements (front first) of the list at a *List
		return "(Array Loc (Array (_ BitVec 64) Loc))"
	case "ghost:lpos": // container/list: index of an element in the list, -1 when not in it
		return "(Array Loc (Array Loc (_ BitVec 64)))"
	}
	if strings.HasPrefix(k, "ghost:") {
		return "G_" + sanitize(strings.TrimPrefix(k, "ghost:"))
	}
	var id int
	var kind string
	if i := strings.Index(k, ":"); i > 0 {
		kind = k[:i]
		fmt.Sscanf(k[i+1:], "%d", &id)
	}
	mi := te.mapByID(id)
	if mi == nil {
		return ""
	}
	switch kind {
	case "mapdom":
		return fmt.Sprintf("(Array Loc (Array %s Bool))", mi.ksort)
	case "mapval":
		return fmt.Sprintf("(Array Loc (Array %s %s))", mi.ksort, mi.vsort)
	case "maplen":
		return "(Array Loc (_ BitVec 64))"
	}
	return ""
}

func (te *TypeEnv) mapCompZero(k string) string {
	if strings.HasPrefix(k, "maplen:") || k == "ghost:llen" {
		return "#x0000000000000000"
	}
	if k == "ghost:lpos" {
		return "((as const (Array Loc (_ BitVec 64))) #xffffffffffffffff)"
	}
	if strings.HasPrefix(k, "mapdom:") {
		var id int
		fmt.Sscanf(k[len("mapdom:"):], "%d", &id)
		if mi := te.mapByID(id); mi != nil {
			return fmt.Sprintf("((as const (Array %s Bool)) false)", mi.ksort)
		}
	}
	return ""
}

func (te *TypeEnv) mapComps() []string {
	var ks []string
	for _, mi := range te.maps {
		ks = append(ks, mi.domK(), mi.valK(), mi.lenK())
	}
	for g := range te.ghosts {
		ks = append(ks, g)
	}
	if te.usesLists {
		ks = append(ks, "ghost:llen", "ghost:lseq", "ghost:lpos")
	}
	sort.Strings(ks)
	return ks
}

func (te *TypeEnv) boxFn(s string) string {
	te.ensureBox(s)
	return "box_" + sanitize(s)
}
func (te *TypeEnv) unboxFn(s string) string {
	te.ensureBox(s)
	return "unbox_" + sanitize(s)
}
func (te *TypeEnv) ensureBox(s string) {
	if te.boxes == nil {
		te.boxes = map[string]bool{}
	}
	if te.boxes[s] {
		return
	}
	te.boxes[s] = true
	n := sanitize(s)
	te.decls = append(te.decls,
		fmt.Sprintf("(declare-fun box_%s (%s) Box)", n, s),
		fmt.Sprintf("(declare-fun unbox_%s (Box) %s)", n, s))
}

// ---- map instructions

func (c *FnVC) makeMap(x *ssa.MakeMap) {
	base := c.bumpAlloc()
	c.setVal(x, fmt.Sprintf("(mkLoc %s PNil)", base))
	// fresh map: empty by the zero-beyond-alloc axiom
}

func (c *FnVC) mapKey(mi *mapInfo, k ssa.Value) string {
	t := c.v(k)
	// interface-keyed maps hold boxed keys
	if _, isI := mi.k.Underlying().(*types.Interface); isI {
		return c.mkIface(k.Type(), t)
	}
	return t
}

func (c *FnVC) lookup(x *ssa.Lookup) {
	switch u := x.X.Type().Underlying().(type) {
	case *types.Map:
		mi := c.te.mapOf(u)
		m := c.v(x.X)
		k := c.mapKey(mi, x.Index)
		dom := fmt.Sprintf("(select (select %s %s) %s)", c.H(mi.domK()), m, k)
		val := fmt.Sprintf("(select (select %s %s) %s)", c.H(mi.valK()), m, k)
		z := c.te.zeroOf(u.Elem())
		if z != "" {
			val = ite(dom, val, z)
		}
		if x.CommaOk {
			vn := c.freshName("mv_" + sanitize(x.Name()))
			c.def(vn, c.te.sortOf(u.Elem()), val)
			c.assumeTypeInv(vn, u.Elem())
			on := c.freshName("mok_" + sanitize(x.Name()))
			c.def(on, "Bool", dom)
			c.tuples[x] = []string{vn, on}
			return
		}
		n := c.setVal(x, val)
		c.assumeTypeInv(n, u.Elem())
	case *types.Basic: // string index (Lookup is used for strings in some forms)
		i := c.toI64(x.Index)
		s := c.v(x.X)
		c.oblige("bounds", fmt.Sprintf("(and (bvsle #x0000000000000000 %s) (bvslt %s (str_len %s)))", i, i, s), x.Block(), "string index in range "+c.srcAt(x.Pos()), x.Pos())
		c.setVal(x, fmt.Sprintf("(select (str_arr %s) %s)", s, i))
	default:
		c.havocVal(x, "lookup on "+x.X.Type().String())
	}
}

func (c *FnVC) mapUpdate(x *ssa.MapUpdate) {
	u := x.Map.Type().Underlying().(*types.Map)
	mi := c.te.mapOf(u)
	m := c.v(x.Map)
	c.oblige("nilmap", fmt.Sprintf("(not (= %s NullLoc))", m), x.Block(), "assignment to entry in nil map "+c.srcAt(x.Pos()), x.Pos())
	k := c.mapKey(mi, x.Key)
	val := c.v(x.Value)
	if _, isI := u.Elem().Underlying().(*types.Interface); isI {
		val = c.mkIface(x.Value.Type(), val)
	}
	dom := c.H(mi.domK())
	had := fmt.Sprintf("(select (select %s %s) %s)", dom, m, k)
	ln := c.H(mi.lenK())
	c.setH(mi.lenK(), fmt.Sprintf("(store %s %s (ite %s (select %s %s) (bvadd (select %s %s) #x0000000000000001)))", ln, m, had, ln, m, ln, m))
	c.setH(mi.domK(), fmt.Sprintf("(store %s %s (store (select %s %s) %s true))", dom, m, dom, m, k))
	vh := c.H(mi.valK())
	c.setH(mi.valK(), fmt.Sprintf("(store %s %s (store (select %s %s) %s %s))", vh, m, vh, m, k, val))
}

func (c *FnVC) mapDelete(m string, u *types.Map, k string) {
	mi := c.te.mapOf(u)
	dom := c.H(mi.domK())
	had := fmt.Sprintf("(select (select %s %s) %s)", dom, m, k)
	ln := c.H(mi.lenK())
	// delete on a nil map is a no-op
	c.setH(mi.lenK(), fmt.Sprintf("(store %s %s (ite %s (bvsub (select %s %s) #x0000000000000001) (select %s %s)))", ln, m, had, ln, m, ln, m))
	c.setH(mi.domK(), fmt.Sprintf("(store %s %s (store (select %s %s) %s false))", dom, m, dom, m, k))
}

// ---- range over maps / strings

type rangeState struct {
	x     *ssa.Range
	isMap bool
}

func (c *FnVC) rangeInstr(x *ssa.Range) {
	c.vals[x] = "range_" + sanitize(x.Name())
	if b, ok := x.X.Type().Underlying().(*types.Basic); ok && b.Info()&types.IsString != 0 {
		// range over a string: the byte position of the iterator is ghost state, kept in the
		// bv64 heap at a location no Go object can have (a field path below nil's base 0)
		c.H("bv64")
		c.setH("bv64", fmt.Sprintf("(store %s %s #x0000000000000000)", c.H("bv64"), c.rangeLoc(x)))
	}
}

// rangeLoc: the ghost location holding the byte position of a string range iterator.
func (c *FnVC) rangeLoc(x *ssa.Range) string {
	if c.rangeLocs == nil {
		c.rangeLocs = map[*ssa.Range]string{}
	}
	if l, ok := c.rangeLocs[x]; ok {
		return l
	}
	// base 0 is nil's base: no object lives below it
	l := fmt.Sprintf("(mkLoc 0 (PF PNil %d))", 7000+len(c.rangeLocs))
	c.rangeLocs[x] = l
	return l
}

func (c *FnVC) next(x *ssa.Next) {
	rng, _ := x.Iter.(*ssa.Range)
	if rng == nil {
		c.havocVal(x, "next on unknown iterator")
		return
	}
	okn := c.freshConst("next_ok_"+sanitize(x.Name()), "Bool")
	if x.IsString {
		// Go's range over a string, by UTF-8 decoding position: the iterator stands at byte
		// position p; it stops when p == len; otherwise it yields (p, rune) and advances by the
		// width w of the encoding at p: an ASCII byte is its own rune with w == 1; a byte >= 0x80
		// starts a sequence of 1..4 bytes (1 for an invalid encoding, which yields RuneError)
		// whose further bytes are continuation bytes (>= 0x80), and yields a rune in 0x80..0x10FFFF
		// (a decoded code point, or RuneError = 0xFFFD).
		s := c.v(rng.X)
		rl := c.rangeLoc(rng)
		p := c.freshName("next_p_" + sanitize(x.Name()))
		c.def(p, "(_ BitVec 64)", fmt.Sprintf("(select %s %s)", c.H("bv64"), rl))
		k := p
		v := c.freshConst("next_v_"+sanitize(x.Name()), "(_ BitVec 32)")
		w := c.freshConst("next_w_"+sanitize(x.Name()), "(_ BitVec 64)")
		c.assume(fmt.Sprintf("(= %s (and (bvsle #x0000000000000000 %s) (bvslt %s (str_len %s))))", okn, p, p, s))
		c.assume(fmt.Sprintf("(=> (and %s (bvult (select (str_arr %s) %s) #x80)) (and (= %s ((_ zero_extend 24) (select (str_arr %s) %s))) (= %s #x0000000000000001)))", okn, s, k, v, s, k, w))
		c.assume(fmt.Sprintf("(=> (and %s (bvuge (select (str_arr %s) %s) #x80)) (and (bvuge %s #x00000080) (bvule %s #x0010ffff) (bvsle #x0000000000000001 %s) (bvsle %s #x0000000000000004) (bvsle (bvadd %s %s) (str_len %s)) (forall ((j (_ BitVec 64))) (=> (and (bvslt %s j) (bvslt j (bvadd %s %s))) (bvuge (select (str_arr %s) j) #x80)))))", okn, s, k, v, v, w, w, p, w, s, p, p, w, s))
		c.setH("bv64", fmt.Sprintf("(store %s %s (ite %s (bvadd %s %s) %s))", c.H("bv64"), rl, okn, p, w, p))
		c.tuples[x] = []string{okn, k, v}
		return
	}
	u, isMap := rng.X.Type().Underlying().(*types.Map)
	if !isMap {
		c.havocVal(x, "next on non-map iterator")
		return
	}
	mi := c.te.mapOf(u)
	m := c.v(rng.X)
	k := c.freshConst("next_k_"+sanitize(x.Name()), mi.ksort)
	v := c.freshConst("next_v_"+sanitize(x.Name()), mi.vsort)
	// an arbitrary key of the (current) domain
	c.assume(fmt.Sprintf("(=> %s (select (select %s %s) %s))", okn, c.H(mi.domK()), m, k))
	c.assume(fmt.Sprintf("(=> %s (= %s (select (select %s %s) %s)))", okn, v, c.H(mi.valK()), m, k))
	c.assume(fmt.Sprintf("(=> (= %s NullLoc) (not %s))", m, okn))
	c.assumeTypeInv(k, mi.k)
	c.assumeTypeInv(v, mi.v)
	c.tuples[x] = []string{okn, k, v}
}
