package main

// Skolemisation of obligation goals. A goal of the form (forall (vars) B) - possibly under
// implications and conjunctions - is proved for fresh declared constants instead of leaving
// (not (forall ...)) to the solver: z3 then E-matches loop-invariant triggers against terms
// built from ordinary constants (its own late skolems sort differently inside bvadd and the
// syntactic match fails; measured: unknown -> unsat in 0.3 s). Sound: proving B[c] for a
// fresh c proves the universal statement.

import (
	"fmt"
	"strings"
	"sync/atomic"
)

type sx struct {
	atom string
	list []*sx
	isL  bool
}

func parseSx(s string) (*sx, bool) {
	pos := 0
	var parse func() (*sx, bool)
	skip := func() {
		for pos < len(s) && (s[pos] == ' ' || s[pos] == '\n' || s[pos] == '\t') {
			pos++
		}
	}
	parse = func() (*sx, bool) {
		skip()
		if pos >= len(s) {
			return nil, false
		}
		if s[pos] == '(' {
			pos++
			n := &sx{isL: true}
			for {
				skip()
				if pos >= len(s) {
					return nil, false
				}
				if s[pos] == ')' {
					pos++
					return n, true
				}
				c, ok := parse()
				if !ok {
					return nil, false
				}
				n.list = append(n.list, c)
			}
		}
		if s[pos] == ')' {
			return nil, false
		}
		st := pos
		if s[pos] == '"' || s[pos] == '|' {
			q := s[pos]
			pos++
			for pos < len(s) && s[pos] != q {
				pos++
			}
			if pos >= len(s) {
				return nil, false
			}
			pos++
			return &sx{atom: s[st:pos]}, true
		}
		for pos < len(s) && s[pos] != ' ' && s[pos] != '\n' && s[pos] != '\t' && s[pos] != '(' && s[pos] != ')' {
			pos++
		}
		return &sx{atom: s[st:pos]}, true
	}
	n, ok := parse()
	if !ok {
		return nil, false
	}
	skip()
	if pos != len(s) {
		return nil, false
	}
	return n, true
}

func (n *sx) String() string {
	if !n.isL {
		return n.atom
	}
	parts := make([]string, len(n.list))
	for i, c := range n.list {
		parts[i] = c.String()
	}
	return "(" + strings.Join(parts, " ") + ")"
}

func (n *sx) head() string {
	if n.isL && len(n.list) > 0 && !n.list[0].isL {
		return n.list[0].atom
	}
	return ""
}

// subst replaces free occurrences of the atoms in m (binders that rebind a name stop it).
func (n *sx) subst(m map[string]string) *sx {
	if !n.isL {
		if r, ok := m[n.atom]; ok {
			return &sx{atom: r}
		}
		return n
	}
	h := n.head()
	if (h == "forall" || h == "exists") && len(n.list) == 3 && n.list[1].isL {
		m2 := m
		for _, b := range n.list[1].list {
			if b.isL && len(b.list) == 2 && !b.list[0].isL {
				if _, ok := m2[b.list[0].atom]; ok {
					if len(m2) == len(m) {
						m2 = map[string]string{}
						for k, v := range m {
							m2[k] = v
						}
					}
					delete(m2, b.list[0].atom)
				}
			}
		}
		return &sx{isL: true, list: []*sx{n.list[0], n.list[1], n.list[2].subst(m2)}}
	}
	if h == "let" && len(n.list) == 3 && n.list[1].isL {
		// bound names shadow; keep it simple: substitute in the bound terms, and in the body
		// only the names that are not rebound
		m2 := map[string]string{}
		for k, v := range m {
			m2[k] = v
		}
		binds := &sx{isL: true}
		for _, b := range n.list[1].list {
			if b.isL && len(b.list) == 2 && !b.list[0].isL {
				binds.list = append(binds.list, &sx{isL: true, list: []*sx{b.list[0], b.list[1].subst(m)}})
				delete(m2, b.list[0].atom)
			} else {
				binds.list = append(binds.list, b)
			}
		}
		return &sx{isL: true, list: []*sx{n.list[0], binds, n.list[2].subst(m2)}}
	}
	out := &sx{isL: true, list: make([]*sx, len(n.list))}
	for i, c := range n.list {
		out.list[i] = c.subst(m)
	}
	return out
}

var skolemN int64

// skolemizeGoal returns the goal with its positive universal quantifiers replaced by fresh
// constants, and the declarations of those constants. On any parse problem the goal is
// returned unchanged.
func skolemizeGoal(goal string) (string, []string) {
	if !strings.Contains(goal, "(forall ") {
		return goal, nil
	}
	n, ok := parseSx(goal)
	if !ok {
		return goal, nil
	}
	var decls []string
	var sk func(n *sx, depth int) *sx
	sk = func(n *sx, depth int) *sx {
		if !n.isL || depth > 12 {
			return n
		}
		switch n.head() {
		case "forall":
			if len(n.list) != 3 || !n.list[1].isL {
				return n
			}
			m := map[string]string{}
			for _, b := range n.list[1].list {
				if !b.isL || len(b.list) != 2 || b.list[0].isL {
					return n
				}
				c := fmt.Sprintf("sk%d_%s", atomic.AddInt64(&skolemN, 1), b.list[0].atom)
				m[b.list[0].atom] = c
				decls = append(decls, fmt.Sprintf("(declare-const %s %s)", c, b.list[1].String()))
			}
			return sk(n.list[2].subst(m), depth+1)
		case "!":
			if len(n.list) >= 2 {
				return sk(n.list[1], depth+1)
			}
		case "=>":
			if len(n.list) == 3 {
				return &sx{isL: true, list: []*sx{n.list[0], n.list[1], sk(n.list[2], depth+1)}}
			}
		case "and":
			out := &sx{isL: true, list: []*sx{n.list[0]}}
			for _, c := range n.list[1:] {
				out.list = append(out.list, sk(c, depth+1))
			}
			return out
		}
		return n
	}
	res := sk(n, 0)
	if len(decls) == 0 {
		return goal, nil
	}
	return res.String(), decls
}
