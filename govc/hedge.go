package main

import (
	"bytes"
	"os"
	"context"
	"fmt"
	"os/exec"
	"strings"
	"time"
)

// runSolverCtx is runSolver with external cancellation.
func runSolverCtx(ctx context.Context, s solverSpec, input string, timeoutS int, started chan struct{}) (verdict, output string, secs float64) {
	// The budget is CPU time (ulimit -t), so that the verdict does not depend on how busy
	// the machine is; wall-clock time is capped at four times the budget.
	slot := acquireSlot()
	defer releaseSlot(slot)
	if started != nil {
		close(started)
	}
	if ctx.Err() != nil {
		return "unknown", "", 0 // the race was decided while this run waited for a slot
	}
	wall := 4 * timeoutS
	cctx, cancel := context.WithTimeout(ctx, time.Duration(wall+2)*time.Second)
	defer cancel()
	argv := s.argv(wall)
	sh := fmt.Sprintf("ulimit -t %d; exec \"$0\" \"$@\"", timeoutS)
	cmd := exec.CommandContext(cctx, "sh", append([]string{"-c", sh}, argv...)...)
	cmd.Stdin = strings.NewReader(input)
	var out bytes.Buffer
	cmd.Stdout = &out
	cmd.Stderr = &out
	t0 := time.Now()
	_ = cmd.Run()
	secs = time.Since(t0).Seconds()
	output = dropWarnings(out.String())
	first := strings.TrimSpace(strings.SplitN(output, "\n", 2)[0])
	switch first {
	case "unsat", "sat", "unknown":
		verdict = first
		// a malformed query makes the verdict meaningless (z3 carries on after an error)
		for _, l := range strings.Split(output, "\n") {
			if strings.HasPrefix(l, "(error ") && !strings.Contains(l, "model is not available") {
				verdict = "error"
			}
		}
	default:
		if cctx.Err() != nil {
			verdict = "timeout"
		} else if strings.Contains(output, "error") {
			verdict = "error"
		} else {
			verdict = "unknown"
		}
	}
	return
}

// hedgeDelay: how long the primary configuration runs alone before the other
// configurations and solvers are started next to it. Solver run times on these queries
// have a heavy tail that differs per configuration; racing cuts the tail.
const hedgeDelay = 2 * time.Second

// dischargeHedged: primary first; after hedgeDelay all others join; first unsat/sat wins.
func dischargeHedged(o *Obligation, timeoutS int) {
	ctx, cancel := context.WithCancel(context.Background())
	defer cancel()
	type res struct {
		v, out, name string
		t          float64
	}
	ch := make(chan res, len(solvers)+5)
	withModel := o.smt(true)
	noModel := o.smt(false)
	plainModel := o.smtV(true, false)
	plain := o.smtV(false, false)
	hasAlt := plain != noModel
	// pruned forms (heap frame axioms outside the goal's cone dropped, see prune.go): only
	// their `unsat` counts
	prunedSk := o.smtP(false, !noSkolem, true)
	prunedPlain := o.smtP(false, false, true)
	hasPruned := !noPrune && prunedSk != noModel
	// startV: run solver s on the skolemised (sk) or plain form of the query, full or pruned
	startV := func(s solverSpec, sk, pruned bool, st chan struct{}) {
		go func() {
			in := noModel
			if !sk {
				in = plain
			}
			if strings.HasPrefix(s.name, "z3-new") {
				in = withModel
				if !sk {
					in = plainModel
				}
			}
			name := s.name
			if !sk && hasAlt {
				name += "/plain"
			}
			if pruned {
				in = prunedSk
				if !sk {
					in = prunedPlain
				}
				name += "/pruned"
			}
			v, out, t := runSolverCtx(ctx, s, in, timeoutS, st)
			if pruned && v != "unsat" && v != "error" {
				v = "unknown" // a model of fewer assumptions is no counterexample
			}
			ch <- res{v, out, name, t}
		}()
	}
	startHedge := func() int {
		n := 0
		for i, s := range hedgeSolvers() {
			// alternate forms across the hedge; the primary configuration also gets a run
			// on the plain form when the two differ
			startV(s, !(hasAlt && i%2 == 0), false, nil)
			n++
		}
		if hasAlt {
			startV(solvers[0], false, false, nil)
			n++
		}
		if hasPruned {
			// the primary ran on the pruned query: now the full one, and a second pruned form
			startV(solvers[0], true, false, nil)
			n++
			if hasAlt {
				startV(solvers[1], false, true, nil)
				n++
			}
		}
		return n
	}
	// the hedge delay counts from the moment the primary solver actually runs (it may
	// first wait for a machine-wide slot)
	started := make(chan struct{})
	startV(solvers[0], true, hasPruned, started)
	running := 1
	hedged := false
	timer := time.NewTimer(24 * time.Hour)
	defer timer.Stop()
	var outs []string
	for running > 0 {
		select {
		case <-started:
			started = nil
			timer.Reset(hedgeDelay)
		case <-timer.C:
			if !hedged {
				hedged = true
				running += startHedge()
			}
		case r := <-ch:
			running--
			o.Time += r.t
			outs = append(outs, r.name+": "+r.v+" "+firstLines(r.out, 2))
			if r.v == "error" && strings.HasPrefix(r.name, "z3-new") {
				// a query the primary solver cannot even parse is a defect of the generator
				o.Verdict, o.Solver, o.Output = "error", r.name, r.out
				return
			}
			if r.v == "unsat" || r.v == "sat" {
				o.Verdict, o.Solver, o.Output = r.v, r.name, r.out
				if r.v == "sat" && strings.HasPrefix(r.name, "z3-new") {
					o.Model = r.out
				}
				return
			}
			if !hedged {
				// primary gave up early (unknown): start the others at once
				hedged = true
				running += startHedge()
			}
		}
	}
	o.Verdict = "unknown"
	o.Output = strings.Join(outs, "\n")
	if o.Raw == "" {
		// model search: the default configuration (relevancy filtering on) finds models
		// far more often than the proof-oriented primary configuration
		v, out, t := runSolver(solvers[1], dropQuantified(withModel), 20)
		o.Time += t
		if v == "sat" {
			o.Model = out
			o.Output += "\ncandidate model (quantified background axioms dropped):\n" + out
		}
	}
}

// noPrune switches relevance pruning off (GOVC_NOPRUNE=1, for comparison runs).
var noPrune = os.Getenv("GOVC_NOPRUNE") == "1"

// hedgeLight restricts the hedge to two extra solvers (development runs on a shared machine).
var hedgeLight = false

func hedgeSolvers() []solverSpec {
	if hedgeLight {
		return []solverSpec{solvers[1], solvers[3]}
	}
	return solvers[1:]
}

// dropWarnings removes solver warnings (z3 prints e.g. "WARNING: ... 'if' cannot be used in
// patterns" when a trigger mentions a merged heap; it then ignores that trigger).
func dropWarnings(out string) string {
	if !strings.Contains(out, "WARNING") {
		return out
	}
	var keep []string
	for _, l := range strings.Split(out, "\n") {
		if strings.HasPrefix(strings.TrimSpace(l), "WARNING") {
			continue
		}
		keep = append(keep, l)
	}
	return strings.Join(keep, "\n")
}
