package main

import (
	"fmt"
	"go/ast"
	"go/types"
	"strings"

	"golang.org/x/tools/go/ssa"
)

func (c *FnVC) call(x *ssa.Call) {
	cc := x.Common()
	if bi, ok := cc.Value.(*ssa.Builtin); ok {
		c.builtin(x, bi)
		return
	}
	if cc.IsInvoke() {
		c.invoke(x)
		return
	}
	if f := cc.StaticCallee(); f != nil {
		if isSyncNoop(f) {
			return
		}
		var args []ssa.Value
		args = append(args, cc.Args...)
		c.staticCall(x, f, args)
		return
	}
	// call of a function value
	c.nilFuncCheck(x)
	if c.ct != nil && c.ct.Uses["purefuncs"] {
		if _, isTuple := x.Type().(*types.Tuple); !isTuple {
			// `uses purefuncs`: function values are assumed to be pure - deterministic in their
			// arguments, panic-free, without heap effect (listed as an assumption). The call is
			// the application of an uninterpreted function, which contracts write apply(f, args).
			var args []string
			var sorts []string
			for _, a := range cc.Args {
				args = append(args, c.v(a))
				sorts = append(sorts, c.te.sortOf(a.Type()))
			}
			fn := c.te.applyFn(sorts, c.te.sortOf(x.Type()))
			n := "v_" + sanitize(x.Name())
			c.def(n, c.te.sortOf(x.Type()), fmt.Sprintf("(%s %s)", fn, strings.Join(append([]string{c.v(cc.Value)}, args...), " ")))
			c.vals[x] = n
			c.assumeTypeInv(n, x.Type())
			c.trustedUsed["function values called in "+c.fnName()+" are pure (deterministic, panic-free, no heap effect)"] = true
			return
		}
	}
	c.unknownCall(x, "call of function value "+cc.Value.Name())
}

func (c *FnVC) nilFuncCheck(x *ssa.Call) {
	c.oblige("nilfunc", fmt.Sprintf("(not (= (fn_id %s) 0))", c.v(x.Common().Value)), x.Block(), "call of nil function value "+c.srcAt(x.Pos()), x.Pos())
}

func (c *FnVC) invoke(x *ssa.Call) {
	cc := x.Common()
	recv := c.v(cc.Value)
	c.oblige("nil", fmt.Sprintf("(not (= (i_typ %s) 0))", recv), x.Block(), "method call on nil interface "+c.srcAt(x.Pos()), x.Pos())
	name := cc.Method.FullName() // e.g. (hash.Hash).Write
	if isSyncNoopName(name) {
		return
	}
	if ct := c.P.contracts[name]; ct != nil {
		var args []string
		var atys []types.Type
		args = append(args, recv)
		atys = append(atys, cc.Value.Type())
		for _, a := range cc.Args {
			args = append(args, c.v(a))
			atys = append(atys, a.Type())
		}
		sig := cc.Method.Type().(*types.Signature)
		c.applyContract(x, ct, nil, sig, "recv", args, atys, name)
		return
	}
	c.unknownCall(x, "interface method "+name)
}

// unknownCall: no contract. Results unknown, heap unknown; in a nopanic function the
// callee must be known not to panic.
func (c *FnVC) unknownCall(x *ssa.Call, what string) {
	// `at call` assertions also apply to calls without contract (e.g. calls of function
	// values): callee name "funcvalue" matches every call of a function value
	if c.ct != nil && len(c.ct.At) > 0 {
		cc := x.Common()
		name := what
		if cc.StaticCallee() == nil && !cc.IsInvoke() {
			name = "funcvalue " + what
		}
		var args []string
		var atys []types.Type
		if cc.IsInvoke() {
			args = append(args, c.v(cc.Value))
			atys = append(atys, cc.Value.Type())
		}
		for _, a := range cc.Args {
			args = append(args, c.v(a))
			atys = append(atys, a.Type())
		}
		c.callN[name]++
		c.atAsserts(x, name, fmt.Sprintf("%s#%d", shortCallee(name), c.callN[name]), args, atys)
	}
	assumed := false
	pureAssumed := false
	if c.ct != nil {
		desc := what
		if cc := x.Common(); cc.StaticCallee() == nil && !cc.IsInvoke() {
			desc = "funcvalue " + what
		}
		for _, a := range c.ct.AssumeNoPanic {
			if a != "" && strings.Contains(desc, a) {
				assumed = true
				c.trustedUsed["assumed not to panic: "+desc+" (in "+c.fnName()+")"] = true
			}
		}
		for _, a := range c.ct.AssumePure {
			if a != "" && strings.Contains(desc, a) {
				assumed = true
				pureAssumed = true
				c.trustedUsed["assumed not to panic and to leave the heap alone: "+desc+" (in "+c.fnName()+")"] = true
			}
		}
	}
	if c.ct != nil && !c.ct.MayPanic && !c.ct.Abstract && !assumed {
		c.oblige("callpanic", "false", x.Block(), "call without contract may panic: "+what+" "+c.srcAt(x.Pos()), x.Pos())
	}
	if !pureAssumed {
		c.havocAll("unmodelled call: " + what + " " + c.srcAt(x.Pos()))
	}
	c.havocVal(x, "")
}

func (c *FnVC) staticCall(x *ssa.Call, f *ssa.Function, args []ssa.Value) {
	ct := c.P.contractFor(f)
	if ct == nil {
		c.unknownCall(x, "static call "+f.String())
		return
	}
	var ats []string
	var atys []types.Type
	for _, a := range args {
		ats = append(ats, c.v(a))
		atys = append(atys, a.Type())
	}
	c.applyContract(x, ct, f, f.Signature, "", ats, atys, f.String())
}

// applyContract: assert requires, havoc modifies, assume ensures.
func (c *FnVC) applyContract(x *ssa.Call, ct *Contract, f *ssa.Function, sig *types.Signature, recvName string, args []string, atys []types.Type, name string) {
	if v := ct.forCall(); v != ct {
		ct = v
		c.trustedUsed["assumed frame for callers of "+name+" (its own contract says modifies all)"] = true
	}
	env := map[string]envVal{}
	// parameter names
	var pnames []string
	var ptypes []types.Type
	if f != nil {
		for _, p := range f.Params {
			pnames = append(pnames, p.Name())
			ptypes = append(ptypes, p.Type())
		}
	} else {
		pnames = append(pnames, recvName)
		ptypes = append(ptypes, atys[0])
		for i := 0; i < sig.Params().Len(); i++ {
			n := sig.Params().At(i).Name()
			if n == "" || n == "_" {
				n = fmt.Sprintf("arg%d", i)
			}
			pnames = append(pnames, n)
			ptypes = append(ptypes, sig.Params().At(i).Type())
		}
	}
	for i, n := range pnames {
		if i < len(args) {
			env[n] = envVal{args[i], ptypes[i]}
			env[fmt.Sprintf("arg%d", i)] = envVal{args[i], ptypes[i]}
		}
	}
	c.callN[name]++
	if ct.Trusted || ct.Extern {
		c.trustedUsed[name] = true
	}
	tag := fmt.Sprintf("%s#%d", shortCallee(name), c.callN[name])
	c.comment("call " + tag)
	pre := c.newEval(f, env, copyHeap(c.cur), nil)
	if f == nil {
		pre.pkg = c.fn.Pkg.Pkg
	}
	b := x.Block()
	for i, r := range ct.Requires {
		for j, cj := range splitConjDeep(r.Expr, 0) {
			t, err := pre.boolExpr(cj)
			if err != nil {
				c.errorf("%s: requires of %s %q: %v", c.fnName(), name, r.Text, err)
				continue
			}
			c.classN["pre"]++
			o := c.obligeNamed("pre", fmt.Sprintf("pre@%s.%d.c%d", tag, i+1, j+1), t, c.reach[b], "precondition of "+name+": "+exprString(cj)+" "+c.srcAt(x.Pos()), nil)
			o.Pos = x.Pos()
			c.assume(imp(c.reach[b], t))
		}
	}
	// explicit panics of the callee: a `maypanic` callee may panic on any call, a
	// `panics_when E` callee exactly when E holds at the call; a caller that promises
	// panic-freedom must exclude both (or allow them through its own panics_when)
	if c.ct != nil && !c.ct.MayPanic && !c.ct.Abstract {
		allowed := "false"
		if c.ct.PanicsWhen != nil {
			ev0 := c.newEval(c.fn, c.paramEnv(), c.entry, nil)
			if t, err := ev0.boolExpr(c.ct.PanicsWhen.Expr); err == nil {
				allowed = t
			}
		}
		if ct.MayPanic {
			c.obligeNamed("callpanic", fmt.Sprintf("callpanic@%s", tag), allowed, c.reach[b], "callee may panic (its contract says maypanic): "+name+" "+c.srcAt(x.Pos()), nil).Pos = x.Pos()
		} else if ct.PanicsWhen != nil {
			if t, err := pre.boolExpr(ct.PanicsWhen.Expr); err != nil {
				c.errorf("%s: panics_when of %s: %v", c.fnName(), name, err)
			} else {
				c.obligeNamed("callpanic", fmt.Sprintf("callpanic@%s", tag), or(not(t), allowed), c.reach[b], "callee panics when "+ct.PanicsWhen.Text+": "+name+" "+c.srcAt(x.Pos()), nil).Pos = x.Pos()
				c.assume(imp(c.reach[b], not(t))) // the call returned
			}
		}
	}
	// at-call assertions of the caller's contract
	c.atAsserts(x, name, tag, args, atys)
	// effect
	preHeap := copyHeap(c.cur)
	allocPre := c.allocTerm()
	mayAlloc := !ct.NoAlloc
	if f != nil && !ct.Trusted && !ct.MayAlloc {
		mayAlloc = c.P.mayAlloc(f)
	}
	if ct.Pure {
		mayAlloc = false
	}
	if ct.ModAll {
		c.havocAll("call with modifies all: " + name)
	} else {
		ms, err := pre.modSet(ct.Modifies)
		if err != nil {
			c.errorf("%s: modifies of %s: %v", c.fnName(), name, err)
			ms = &modSet{all: true}
		}
		if mayAlloc {
			c.havocComp("alloc", "", "", "")
			allocPost := c.allocTerm()
			for _, k := range c.allComps() {
				kk := k
				c.havocComp(kk, ms.inSet(kk, "l"), allocPre, allocPost)
			}
		} else {
			simple := len(ms.ranges) == 0 && len(ms.unders) == 0
			if simple {
				for _, e := range ms.exact {
					fv := c.freshConst("mod_"+sanitize(e.kind), kindSortOrComp(c, e.kind))
					c.setH(e.kind, fmt.Sprintf("(store %s %s %s)", c.H(e.kind), e.loc, fv))
				}
			} else {
				for k := range ms.kinds(c) {
					c.havocComp(k, ms.inSet(k, "l"), "", "")
				}
			}
		}
	}
	// results
	res := sig.Results()
	var rv []string
	for i := 0; i < res.Len(); i++ {
		n := c.freshConst(fmt.Sprintf("r_%s_%d", sanitize(x.Name()), i), c.te.sortOf(res.At(i).Type()))
		rv = append(rv, n)
	}
	for i := 0; i < res.Len(); i++ {
		c.assumeTypeInv(rv[i], res.At(i).Type())
	}
	switch res.Len() {
	case 0:
	case 1:
		c.vals[x] = rv[0]
	default:
		c.tuples[x] = rv
	}
	c.bindResults(env, sig, rv)
	preOld := c.newEval(f, env, preHeap, nil)
	post := c.newEval(f, env, copyHeap(c.cur), preOld)
	preOld.externCallee, post.externCallee = ct.Extern, ct.Extern
	if f == nil {
		preOld.pkg = c.fn.Pkg.Pkg
		post.pkg = c.fn.Pkg.Pkg
	}
	for _, e := range ct.Ensures {
		if e.AssumedOnly {
			c.trustedUsed["assumed ghost-event clause of "+name+": "+e.Text] = true
		}
		// `G ==> sameheap()`: instead of equating whole heap arrays (expensive for the
		// solver), the heap after the call is ite(G, heap before, heap after) per component
		if g, ok := sameheapGuard(e.Expr); ok {
			gt, err := post.boolExpr(g)
			if err != nil {
				c.errorf("%s: ensures of %s %q: %v", c.fnName(), name, e.Text, err)
				continue
			}
			gn := c.freshName("sameheap")
			c.def(gn, "Bool", gt)
			for _, k := range append([]string{"alloc"}, c.allComps()...) {
				if preHeap[k] == c.cur[k] {
					continue
				}
				c.setH(k, ite(gn, c.hOf(preHeap, k), c.H(k)))
			}
			continue
		}
		t, err := post.boolExpr(e.Expr)
		if err != nil {
			c.errorf("%s: ensures of %s %q: %v", c.fnName(), name, e.Text, err)
			continue
		}
		c.assume(imp(c.reach[b], t))
	}
	// after-call assertions of the caller's contract (state after the call, results nameable)
	{
		var rtys []types.Type
		for i := 0; i < res.Len(); i++ {
			rtys = append(rtys, res.At(i).Type())
		}
		c.afterAsserts(b, name, tag, args, atys, rv, rtys)
	}
	// recursion: decreases
	if f == c.fn && c.ct != nil && c.ct.Decreases != nil {
		cur := c.newEval(c.fn, c.paramEnv(), c.entry, nil)
		d0, dt, err := cur.expr(c.ct.Decreases.Expr, intT)
		calleeEv := c.newEval(f, env, preHeap, nil)
		d1, _, err2 := calleeEv.expr(c.ct.Decreases.Expr, intT)
		if err != nil || err2 != nil {
			c.errorf("%s: decreases: %v %v", c.fnName(), err, err2)
		} else {
			_ = dt
			c.oblige("decreases", fmt.Sprintf("(and (bvsle #x0000000000000000 %s) (bvslt %s %s))", d0, d1, d0), b, "recursive call decreases the variant "+c.srcAt(x.Pos()), x.Pos())
		}
	} else if f != nil && f == c.fn && c.ct != nil && c.ct.Terminates {
		c.oblige("decreases", "false", b, "recursive call without decreases clause", x.Pos())
	}
}

func kindSortOrComp(c *FnVC, k string) string {
	if s, ok := kindSort[k]; ok {
		return s
	}
	switch {
	case k == "ghost:llen" || strings.HasPrefix(k, "maplen:"):
		return "(_ BitVec 64)"
	case k == "ghost:lseq":
		return "(Array (_ BitVec 64) Loc)"
	case k == "ghost:lpos":
		return "(Array Loc (_ BitVec 64))"
	}
	// element sort of a map component: strip the outer (Array Loc ...)
	if cs := c.te.mapComp(k); strings.HasPrefix(cs, "(Array Loc ") {
		return strings.TrimSuffix(strings.TrimPrefix(cs, "(Array Loc "), ")")
	}
	return "Opaque"
}

func shortCallee(n string) string {
	// strip package path directories
	if i := strings.LastIndex(n, "/"); i >= 0 {
		pre := n[:i]
		j := strings.LastIndexAny(pre, "(*")
		n = pre[:j+1] + n[i+1:]
	}
	return n
}

// ---- builtins

func (c *FnVC) builtin(x *ssa.Call, bi *ssa.Builtin) {
	args := x.Common().Args
	switch bi.Name() {
	case "len", "cap":
		a := c.v(args[0])
		switch u := args[0].Type().Underlying().(type) {
		case *types.Slice:
			if bi.Name() == "len" {
				c.setVal(x, "(s_len "+a+")")
			} else {
				c.setVal(x, "(s_cap "+a+")")
			}
		case *types.Basic:
			c.setVal(x, "(str_len "+a+")")
		case *types.Array:
			c.setVal(x, bv64(u.Len()))
		case *types.Pointer:
			c.setVal(x, bv64(u.Elem().Underlying().(*types.Array).Len()))
		case *types.Map:
			mi := c.te.mapOf(u)
			n := c.setVal(x, fmt.Sprintf("(select %s %s)", c.H(mi.lenK()), a))
			c.assume("(bvsle #x0000000000000000 " + n + ")")
		default:
			n := c.havocVal(x, "len of "+args[0].Type().String())
			c.assume("(bvsle #x0000000000000000 " + n + ")")
		}
	case "append":
		c.appendBuiltin(x, args)
	case "copy":
		c.copyBuiltin(x, args)
	case "delete":
		u := args[0].Type().Underlying().(*types.Map)
		mi := c.te.mapOf(u)
		c.mapDelete(c.v(args[0]), u, c.mapKey(mi, args[1]))
	case "min", "max":
		t := c.v(args[0])
		_, signed, _ := c.te.intWidth(args[0].Type())
		op := "bvule"
		if signed {
			op = "bvsle"
		}
		for _, a := range args[1:] {
			b := c.v(a)
			if bi.Name() == "min" {
				t = fmt.Sprintf("(ite (%s %s %s) %s %s)", op, t, b, t, b)
			} else {
				t = fmt.Sprintf("(ite (%s %s %s) %s %s)", op, t, b, b, t)
			}
		}
		c.setVal(x, t)
	case "print", "println":
	case "recover":
		c.havocVal(x, "recover")
	case "clear":
		c.havocAll("clear builtin")
	default:
		if x.Type() != nil {
			if tup, ok := x.Type().(*types.Tuple); !ok || tup.Len() > 0 {
				c.havocVal(x, "builtin "+bi.Name())
			}
		}
		c.havocAll("builtin " + bi.Name())
	}
}

// varargsConst recognises the go/ssa lowering of append(s, e1..en):
//   t = new [n]T (varargs); &t[i] = ei ...; slice t[:]
// and returns the element values.
func (c *FnVC) varargsElems(v ssa.Value) ([]ssa.Value, bool) {
	sl, ok := v.(*ssa.Slice)
	if !ok || sl.Low != nil || sl.High != nil {
		return nil, false
	}
	al, ok := sl.X.(*ssa.Alloc)
	if !ok || al.Comment != "varargs" {
		return nil, false
	}
	arr := al.Type().(*types.Pointer).Elem().Underlying().(*types.Array)
	elems := make([]ssa.Value, arr.Len())
	for _, r := range *al.Referrers() {
		ia, ok := r.(*ssa.IndexAddr)
		if !ok {
			continue
		}
		k, ok := ia.Index.(*ssa.Const)
		if !ok {
			return nil, false
		}
		for _, r2 := range *ia.Referrers() {
			if st, ok := r2.(*ssa.Store); ok && st.Addr == ia {
				elems[k.Int64()] = st.Val
			}
		}
	}
	for _, e := range elems {
		if e == nil {
			return nil, false
		}
	}
	return elems, true
}

func (c *FnVC) appendBuiltin(x *ssa.Call, args []ssa.Value) {
	s := c.v(args[0])
	st, _ := args[0].Type().Underlying().(*types.Slice)
	if st == nil {
		c.havocVal(x, "append to non-slice")
		return
	}
	et := st.Elem()
	// length of appended part
	var tlen string
	var tv string
	isStr := false
	if b, ok := args[1].Type().Underlying().(*types.Basic); ok && b.Info()&types.IsString != 0 {
		isStr = true
		tv = c.v(args[1])
		tlen = "(str_len " + tv + ")"
	} else {
		tv = c.v(args[1])
		tlen = "(s_len " + tv + ")"
	}
	newLen := c.freshName("applen")
	c.def(newLen, "(_ BitVec 64)", fmt.Sprintf("(bvadd (s_len %s) %s)", s, tlen))
	c.allocBoundCheck(newLen, x, "append")
	inPlace := c.freshName("appinplace")
	c.def(inPlace, "Bool", fmt.Sprintf("(bvsle %s (s_cap %s))", newLen, s))
	// appending nothing to a nil slice keeps it nil
	base := c.bumpAlloc()
	newCap := c.freshConst("appcap", "(_ BitVec 64)")
	c.assume(fmt.Sprintf("(and (bvsle %s %s) (bvsle %s #x0000010000000000))", newLen, newCap, newCap))
	res := c.freshName("app")
	c.def(res, "Slice", fmt.Sprintf("(ite %s (mkSlice (s_arr %s) (s_off %s) %s (s_cap %s)) (mkSlice (mkLoc %s PNil) #x0000000000000000 %s %s))",
		inPlace, s, s, newLen, s, base, newLen, newCap))
	c.assume(fmt.Sprintf("(bvsle %s #x0000010000000000)", newLen))
	c.vals[x] = res
	// heap effect
	k := c.te.kindOf(et)
	if elems, ok := c.varargsElems(args[1]); ok && k != "" && len(elems) >= 1 && len(elems) <= 4 {
		// append(s, e1..en) with single-leaf elements: quantifier-free when in place; on
		// reallocation the new array is described by separate, simply triggered facts
		old := c.H(k)
		hin := old
		for j, e := range elems {
			hin = fmt.Sprintf("(store %s (elem %s (bvadd (s_len %s) %s)) %s)", hin, s, s, bv64(int64(j)), c.v(e))
		}
		hr := c.freshName("H_" + k + "_re")
		c.decl(hr, compSort(c, k))
		c.assume(fmt.Sprintf("(forall ((l Loc)) (! (=> (not (= (base l) %s)) (= (select %s l) (select %s l))) :pattern ((select %s l))))", base, hr, old, hr))
		c.assume(fmt.Sprintf("(forall ((i (_ BitVec 64))) (! (=> (and (bvsle #x0000000000000000 i) (bvslt i (s_len %s))) (= (select %s (mkLoc %s (PE PNil i))) (select %s (elem %s i)))) :pattern ((select %s (mkLoc %s (PE PNil i))))))",
			s, hr, base, old, s, hr, base))
		for j, e := range elems {
			c.assume(fmt.Sprintf("(= (select %s (mkLoc %s (PE PNil (bvadd (s_len %s) %s)))) %s)", hr, base, s, bv64(int64(j)), c.v(e)))
		}
		c.setH(k, fmt.Sprintf("(ite %s %s %s)", inPlace, hin, hr))
		return
	}
	if k != "" {
		old := c.H(k)
		n := c.freshName("H_" + k)
		c.decl(n, compSort(c, k))
		var src string
		if isStr {
			src = fmt.Sprintf("(select (str_arr %s) (bvsub (eidx l %s) (s_len %s)))", tv, res, s)
		} else {
			src = fmt.Sprintf("(select %s (elem %s (bvsub (eidx l %s) (s_len %s))))", old, tv, res, s)
		}
		// new part
		upd := fmt.Sprintf("(ite (inrange l %s (s_len %s) %s) %s (ite (and (not %s) (inrange l %s #x0000000000000000 (s_len %s))) (select %s (elem %s (eidx l %s))) (select %s l)))",
			res, s, newLen, src, inPlace, res, s, old, s, res, old)
		c.assume(fmt.Sprintf("(forall ((l Loc)) (! (= (select %s l) %s) :pattern ((select %s l))))", n, upd, n))
		c.cur[k] = n
		return
	}
	// aggregate elements: fixed small varargs are handled leaf by leaf
	if elems, ok := c.varargsElems(args[1]); ok && len(elems) <= 4 {
		ks := map[string]bool{}
		c.te.leafKinds(et, ks)
		// copy of the old prefix on reallocation: per kind, quantified over leaf locations
		for kk := range ks {
			old := c.H(kk)
			n := c.freshName("H_" + sanitize(kk))
			c.decl(n, compSort(c, kk))
			// pre-existing objects unchanged except the appended slots (written below)
			c.assume(fmt.Sprintf("(forall ((l Loc)) (! (=> (not (= (base l) %s)) (= (select %s l) (select %s l))) :pattern ((select %s l))))", base, n, old, n))
			c.cur[kk] = n
		}
		// relocated prefix: elementwise equality for every leaf path of the element type
		c.assumePrefixCopied(et, s, res, inPlace)
		for i, e := range elems {
			loc := fmt.Sprintf("(elem %s (bvadd (s_len %s) %s))", res, s, bv64(int64(i)))
			c.store(et, loc, c.v(e))
		}
		return
	}
	c.havocs = append(c.havocs, "append of aggregate elements approximated "+c.srcAt(x.Pos()))
	ks := map[string]bool{}
	c.te.leafKinds(et, ks)
	for kk := range ks {
		c.havocComp(kk, fmt.Sprintf("(or (= (base l) (base (s_arr %s))) (= (base l) %s))", s, base), "", "")
	}
}

// assumePrefixCopied: after a reallocating append the first len(s) elements of res equal those of s.
func (c *FnVC) assumePrefixCopied(et types.Type, s, res, inPlace string) {
	type leaf struct {
		kind string
		path func(string) string
	}
	var leaves []leaf
	var walk func(t types.Type, mk func(string) string)
	walk = func(t types.Type, mk func(string) string) {
		switch u := t.Underlying().(type) {
		case *types.Struct:
			for i := 0; i < u.NumFields(); i++ {
				ii := i
				walk(u.Field(i).Type(), func(l string) string { return fmt.Sprintf("(fld %s %d)", mk(l), ii) })
			}
		case *types.Array:
			// skipped (approximation: contents unknown)
		default:
			leaves = append(leaves, leaf{c.te.kindOf(t), mk})
		}
	}
	walk(et, func(l string) string { return l })
	for _, lf := range leaves {
		h := c.H(lf.kind)
		c.assume(fmt.Sprintf("(=> (not %s) (forall ((i (_ BitVec 64))) (! (=> (and (bvsle #x0000000000000000 i) (bvslt i (s_len %s))) (= (select %s %s) (select %s %s))) :pattern ((select %s %s)))))",
			inPlace, s, h, lf.path(fmt.Sprintf("(elem %s i)", res)), h, lf.path(fmt.Sprintf("(elem %s i)", s)), h, lf.path(fmt.Sprintf("(elem %s i)", res))))
	}
}

func (c *FnVC) copyBuiltin(x *ssa.Call, args []ssa.Value) {
	dst := c.v(args[0])
	st, _ := args[0].Type().Underlying().(*types.Slice)
	var slen, srcAt string
	k := ""
	if st != nil {
		k = c.te.kindOf(st.Elem())
	}
	src := c.v(args[1])
	isStr := false
	if b, ok := args[1].Type().Underlying().(*types.Basic); ok && b.Info()&types.IsString != 0 {
		isStr = true
		slen = "(str_len " + src + ")"
	} else {
		slen = "(s_len " + src + ")"
	}
	n := c.freshName("copyn")
	c.def(n, "(_ BitVec 64)", fmt.Sprintf("(ite (bvsle (s_len %s) %s) (s_len %s) %s)", dst, slen, dst, slen))
	if x.Type() != nil {
		c.vals[x] = n
	}
	if k == "" {
		ks := map[string]bool{}
		if st != nil {
			c.te.leafKinds(st.Elem(), ks)
		}
		c.havocs = append(c.havocs, "copy of aggregate elements approximated "+c.srcAt(x.Pos()))
		for kk := range ks {
			c.havocComp(kk, fmt.Sprintf("(= (base l) (base (s_arr %s)))", dst), "", "")
		}
		return
	}
	old := c.H(k)
	h := c.freshName("H_" + k)
	c.decl(h, compSort(c, k))
	if isStr {
		srcAt = fmt.Sprintf("(select (str_arr %s) (eidx l %s))", src, dst)
	} else {
		srcAt = fmt.Sprintf("(select %s (elem %s (eidx l %s)))", old, src, dst)
	}
	c.assume(fmt.Sprintf("(forall ((l Loc)) (! (= (select %s l) (ite (inrange l %s #x0000000000000000 %s) %s (select %s l))) :pattern ((select %s l))))", h, dst, n, srcAt, old, h))
	c.cur[k] = h
}

// sameheapGuard: e is imp(G, sameheap()) - returns G.
func sameheapGuard(e ast.Expr) (ast.Expr, bool) {
	for {
		if p, ok := e.(*ast.ParenExpr); ok {
			e = p.X
			continue
		}
		break
	}
	call, ok := e.(*ast.CallExpr)
	if !ok || len(call.Args) != 2 {
		return nil, false
	}
	if id, ok := call.Fun.(*ast.Ident); !ok || id.Name != "imp" {
		return nil, false
	}
	rhs := call.Args[1]
	for {
		if p, ok := rhs.(*ast.ParenExpr); ok {
			rhs = p.X
			continue
		}
		break
	}
	rc, ok := rhs.(*ast.CallExpr)
	if !ok || len(rc.Args) != 0 {
		return nil, false
	}
	if id, ok := rc.Fun.(*ast.Ident); !ok || id.Name != "sameheap" {
		return nil, false
	}
	return call.Args[0], true
}
