package main

import (
	"fmt"
	"go/token"
	"go/types"
	"strings"

	"golang.org/x/tools/go/ssa"
)

// loopWrites computes the heap components a loop may write and whether it allocates,
// and for each component the frame pattern (term over "l") of pre-existing locations
// possibly written.
func (c *FnVC) loopWrites(li *loopInfo) (map[string][]string, bool, bool) {
	writes := map[string][]string{}
	allocs := false
	everything := false
	add := func(k, pat string) { writes[k] = append(writes[k], pat) }
	outside := func(v ssa.Value) bool {
		switch x := v.(type) {
		case *ssa.Const, *ssa.Global, *ssa.Parameter, *ssa.FreeVar, *ssa.Function:
			return true
		case ssa.Instruction:
			return !li.blocks[x.Block()]
		}
		return false
	}
	// pattern for a store through address a
	var addrPat func(a ssa.Value, depth int) string
	addrPat = func(a ssa.Value, depth int) string {
		if depth > 8 {
			return "true"
		}
		if outside(a) {
			if _, isPtr := a.Type().Underlying().(*types.Pointer); isPtr {
				return "EXACT:" + c.v(a)
			}
		}
		if _, isPtr := a.Type().Underlying().(*types.Pointer); isPtr {
			if t, ok := c.hoistTerm(a, outside, 0); ok {
				return "EXACT:" + t // loop-invariant address recomputed inside the loop
			}
		}
		switch x := a.(type) {
		case *ssa.Alloc:
			return "false" // allocated inside the loop: a fresh object
		case *ssa.FieldAddr:
			return rootPat(c, x.X, outside, depth)
		case *ssa.IndexAddr:
			// element of a loop-invariant slice with single-leaf elements: only the
			// slice's own elements can be written (the index is checked to be in range)
			if st, ok := x.X.Type().Underlying().(*types.Slice); ok && outside(x.X) && c.te.kindOf(st.Elem()) != "" {
				s := c.v(x.X)
				return fmt.Sprintf("(inrange l %s #x0000000000000000 (s_len %s))", s, s)
			}
			return rootPat(c, x.X, outside, depth)
		}
		return "true"
	}
	for b := range li.blocks {
		for _, in := range b.Instrs {
			switch x := in.(type) {
			case *ssa.Store:
				ks := map[string]bool{}
				c.te.leafKinds(x.Val.Type(), ks)
				pat := addrPat(x.Addr, 0)
				if outside(x.Addr) && len(ks) > 1 {
					// struct store: all leaves below the address
					pat = fmt.Sprintf("(= (base l) (base %s))", c.v(x.Addr))
				}
				for k := range ks {
					add(k, pat)
				}
			case *ssa.Next:
				if rng, ok := x.Iter.(*ssa.Range); ok && x.IsString {
					add("bv64", "EXACT:"+c.rangeLoc(rng)) // the iterator's ghost position
				}
			case *ssa.MapUpdate:
				mi := c.te.mapOf(x.Map.Type().Underlying().(*types.Map))
				pat := "true"
				if outside(x.Map) {
					pat = fmt.Sprintf("(= l %s)", c.v(x.Map))
				}
				add(mi.domK(), pat)
				add(mi.valK(), pat)
				add(mi.lenK(), pat)
			case *ssa.Alloc, *ssa.MakeSlice, *ssa.MakeMap, *ssa.MakeChan, *ssa.MakeClosure:
				allocs = true
			case *ssa.Convert:
				if _, ok := x.Type().Underlying().(*types.Slice); ok {
					allocs = true
					add("bv8", "false")
				}
			case *ssa.Call:
				cc := x.Common()
				if bi, ok := cc.Value.(*ssa.Builtin); ok {
					switch bi.Name() {
					case "append":
						allocs = true
						if st, ok := cc.Args[0].Type().Underlying().(*types.Slice); ok {
							ks := map[string]bool{}
							c.te.leafKinds(st.Elem(), ks)
							rootPatForAppend = true // in-place append writes beyond len, up to cap
							pat := rootPat(c, cc.Args[0], outside, 0)
							rootPatForAppend = false
							for k := range ks {
								add(k, pat)
							}
						}
					case "copy":
						if st, ok := cc.Args[0].Type().Underlying().(*types.Slice); ok {
							ks := map[string]bool{}
							c.te.leafKinds(st.Elem(), ks)
							pat := rootPat(c, cc.Args[0], outside, 0)
							for k := range ks {
								add(k, pat)
							}
						}
					case "delete":
						mi := c.te.mapOf(cc.Args[0].Type().Underlying().(*types.Map))
						pat := "true"
						if outside(cc.Args[0]) {
							pat = fmt.Sprintf("(= l %s)", c.v(cc.Args[0]))
						}
						add(mi.domK(), pat)
						add(mi.lenK(), pat)
					case "len", "cap", "min", "max", "print", "println":
					default:
						everything = true
					}
					continue
				}
				var ct *Contract
				var f *ssa.Function
				if cc.IsInvoke() {
					if isSyncNoopName(cc.Method.FullName()) {
						continue
					}
					ct = c.P.contracts[cc.Method.FullName()]
				} else if f = cc.StaticCallee(); f != nil {
					if isSyncNoop(f) {
						continue
					}
					ct = c.P.contractFor(f)
				}
				ct = ct.forCall()
				if ct == nil && !cc.IsInvoke() && cc.StaticCallee() == nil && c.ct != nil && c.ct.Uses["purefuncs"] {
					if _, isTuple := in.(*ssa.Call).Type().(*types.Tuple); !isTuple {
						continue // pure function value: no effect (see FnVC.call)
					}
				}
				if ct == nil && c.assumedPureCall(cc) {
					continue // `assume_pure`: no heap effect (assumption, see unknownCall)
				}
				if ct == nil || ct.ModAll {
					everything = true
					allocs = true
					continue
				}
				mayAlloc := !ct.NoAlloc
				if f != nil && !ct.Trusted && !ct.MayAlloc {
					mayAlloc = c.P.mayAlloc(f)
				}
				if ct.Pure {
					mayAlloc = false
				}
				if mayAlloc {
					allocs = true
				}
				// modifies patterns: evaluate when every argument is loop-invariant
				allOut := true
				var args []ssa.Value
				if cc.IsInvoke() {
					args = append(args, cc.Value)
				}
				args = append(args, cc.Args...)
				for _, a := range args {
					if !outside(a) {
						allOut = false
					}
				}
				if len(ct.Modifies) == 0 {
					continue
				}
				if !allOut {
					// kinds only
					ks := c.modKindsStatic(ct, f, cc)
					for k := range ks {
						add(k, "true")
					}
					continue
				}
				env := map[string]envVal{}
				if f != nil {
					for i, p := range f.Params {
						if i < len(args) {
							env[p.Name()] = envVal{c.v(args[i]), p.Type()}
						}
					}
				} else {
					env["recv"] = envVal{c.v(args[0]), args[0].Type()}
					sig := cc.Method.Type().(*types.Signature)
					for i := 0; i < sig.Params().Len() && i+1 < len(args); i++ {
						env[sig.Params().At(i).Name()] = envVal{c.v(args[i+1]), sig.Params().At(i).Type()}
					}
				}
				ev := c.newEval(f, env, copyHeap(c.cur), nil)
				if f == nil {
					ev.pkg = c.fn.Pkg.Pkg
				}
				ms, err := ev.modSet(ct.Modifies)
				if err != nil {
					everything = true
					continue
				}
				for k := range ms.kinds(c) {
					add(k, ms.inSet(k, "l"))
				}
			case *ssa.Go, *ssa.Select:
				everything = true
			case *ssa.Send, *ssa.RunDefers:
				// a send has no effect on this goroutine's heap (see instr.go)
			}
		}
	}
	return writes, allocs, everything
}

// rootPat: frame pattern for an address derived from x by field/index steps.
func rootPat(c *FnVC, x ssa.Value, outside func(ssa.Value) bool, depth int) string {
	if depth > 8 {
		return "true"
	}
	if outside(x) {
		switch x.Type().Underlying().(type) {
		case *types.Pointer:
			return fmt.Sprintf("(= (base l) (base %s))", c.v(x))
		case *types.Slice:
			return fmt.Sprintf("(= (base l) (base (s_arr %s)))", c.v(x))
		}
		return "true"
	}
	switch y := x.(type) {
	case *ssa.Phi:
		// a slice variable of this loop that is only ever re-sliced or appended to: its
		// backing array is either the one it had on loop entry or one allocated later
		if li := c.loops[y.Block()]; li != nil && li.phiEntry != nil {
			if st, isSl := y.Type().Underlying().(*types.Slice); isSl && c.phiKeepsArray(li, y) {
				e := li.phiEntry[y]
				if c.te.kindOf(st.Elem()) != "" && c.phiAppendOnly(li, y) {
					// only ever appended to: in-place appends write into the spare
					// capacity the slice had on loop entry, nothing below its length
					return fmt.Sprintf("(inrange l %s (s_len %s) (s_cap %s))", e, e, e)
				}
				return fmt.Sprintf("(= (base l) (base (s_arr %s)))", e)
			}
		}
		return "true"
	case *ssa.Call:
		if bi, ok := y.Call.Value.(*ssa.Builtin); ok && bi.Name() == "append" {
			return rootPat(c, y.Call.Args[0], outside, depth+1)
		}
		return "true"
	case *ssa.Alloc:
		return "false"
	case *ssa.MakeSlice:
		return "false"
	case *ssa.FieldAddr:
		return rootPat(c, y.X, outside, depth+1)
	case *ssa.IndexAddr:
		return rootPat(c, y.X, outside, depth+1)
	case *ssa.Slice:
		// x[lo:] / x[lo:hi] of a loop-invariant slice x with single-leaf elements and no
		// explicit max: the sub-slice's length range lies within x's own elements when
		// hi is omitted (defaults to len(x)); with an explicit hi it may reach cap(x)
		if st, ok := y.X.Type().Underlying().(*types.Slice); ok && outside(y.X) && y.Max == nil && c.te.kindOf(st.Elem()) != "" {
			s := c.v(y.X)
			if y.High == nil && !rootPatForAppend {
				return fmt.Sprintf("(inrange l %s #x0000000000000000 (s_len %s))", s, s)
			}
			return fmt.Sprintf("(inrange l %s #x0000000000000000 (s_cap %s))", s, s)
		}
		return rootPat(c, y.X, outside, depth+1)
	}
	return "true"
}

// modKindsStatic: heap kinds a contract's modifies clauses can touch (by static types).
func (c *FnVC) modKindsStatic(ct *Contract, f *ssa.Function, cc *ssa.CallCommon) map[string]bool {
	// evaluate the modifies set with dummy (current) argument terms just to learn kinds
	env := map[string]envVal{}
	if f != nil {
		for _, p := range f.Params {
			env[p.Name()] = envVal{c.te.zeroOrDummy(p.Type()), p.Type()}
		}
	} else {
		env["recv"] = envVal{"NilIface", cc.Value.Type()}
		sig := cc.Method.Type().(*types.Signature)
		for i := 0; i < sig.Params().Len(); i++ {
			env[sig.Params().At(i).Name()] = envVal{c.te.zeroOrDummy(sig.Params().At(i).Type()), sig.Params().At(i).Type()}
		}
	}
	save := len(c.out)
	ev := c.newEval(f, env, copyHeap(c.cur), nil)
	if f == nil {
		ev.pkg = c.fn.Pkg.Pkg
	}
	ms, err := ev.modSet(ct.Modifies)
	_ = save
	if err != nil {
		ks := map[string]bool{}
		for _, k := range c.allComps() {
			ks[k] = true
		}
		return ks
	}
	return ms.kinds(c)
}

func (te *TypeEnv) zeroOrDummy(t types.Type) string {
	if z := te.zeroOf(t); z != "" {
		return z
	}
	return "dummy"
}

func (c *FnVC) loopHeader(li *loopInfo, reachName string) {
	c.comment(fmt.Sprintf("loop %d header", li.ordinal))
	li.entryHeap = copyHeap(c.cur)
	li.entryCond = reachName
	writes, allocs, everything := c.loopWrites(li)
	li.allocs = allocs
	allocEntry := c.allocTerm()
	if allocs || everything {
		c.havocComp("alloc", "", "", "")
	}
	allocHead := c.allocTerm()
	if everything {
		for _, k := range c.allComps() {
			c.havocComp(k, "true", "", allocHead)
		}
	} else {
		for _, k := range c.allComps() {
			pats, written := writes[k]
			if !written {
				if allocs {
					// fresh objects of earlier iterations may hold data of this kind
					// only if some instruction writes it; otherwise unchanged.
				}
				continue
			}
			allExact := true
			for _, p := range pats {
				if !strings.HasPrefix(p, "EXACT:") {
					allExact = false
				}
			}
			if _, isLeaf := kindSort[k]; allExact && isLeaf {
				// quantifier-free havoc: only these locations change
				seen := map[string]bool{}
				for _, p := range pats {
					loc := strings.TrimPrefix(p, "EXACT:")
					if seen[loc] {
						continue
					}
					seen[loc] = true
					fv := c.freshConst("loopmod_"+k, kindSort[k])
					c.setH(k, fmt.Sprintf("(store %s %s %s)", c.H(k), loc, fv))
				}
				continue
			}
			var ps []string
			for _, p := range pats {
				if strings.HasPrefix(p, "EXACT:") {
					p = fmt.Sprintf("(= l %s)", strings.TrimPrefix(p, "EXACT:"))
				}
				ps = append(ps, p)
			}
			c.havocComp(k, or(ps...), allocEntry, allocHead)
		}
	}
	// phis: fresh symbols
	var phis []*ssa.Phi
	for _, in := range li.header.Instrs {
		phi, ok := in.(*ssa.Phi)
		if !ok {
			break
		}
		phis = append(phis, phi)
		n := c.freshName("phi_" + sanitize(phi.Name()))
		c.decl(n, c.te.sortOf(phi.Type()))
		c.vals[phi] = n
		c.assumeTypeInv(n, phi.Type())
	}
	li.headHeap = copyHeap(c.cur)
	c.autoInvariants(li, phis)
	// entry obligations
	entryPhis := map[*ssa.Phi]string{}
	headPhis := map[*ssa.Phi]string{}
	for _, p := range phis {
		entryPhis[p] = li.phiEntry[p]
		headPhis[p] = c.vals[p]
	}
	for i, ai := range li.autoInv {
		t := ai.mk(entryPhis)
		c.obligeNamed("inv", fmt.Sprintf("loop%d.auto%d.entry", li.ordinal, i+1), t, reachName, "inferred invariant holds on entry: "+ai.descr, nil)
		c.assume(imp(reachName, ai.mk(headPhis)))
	}
	if li.spec != nil {
		for i, inv := range li.spec.Invariants {
			for j, cj := range splitConjDeep(inv.Expr, 0) {
				te, err := c.invEval(li, entryPhis, li.entryHeap).boolExpr(cj)
				if err != nil {
					c.errorf("%s: loop %d invariant %q: %v", c.fnName(), li.ordinal, inv.Text, err)
					continue
				}
				c.obligeNamed("inv", fmt.Sprintf("loop%d.inv%d.c%d.entry", li.ordinal, i+1, j+1), te, reachName, "invariant holds on entry: "+exprString(cj), nil)
				th, err := c.invEval(li, headPhis, li.headHeap).boolExpr(cj)
				if err != nil {
					c.errorf("%s: loop %d invariant %q: %v", c.fnName(), li.ordinal, inv.Text, err)
					continue
				}
				// only on paths that reach the loop: an invariant over values the loop does
				// not change (parameters, earlier locals) says nothing about other paths
				c.assume(imp(reachName, th))
			}
		}
		for _, l := range li.spec.Lemmas {
			t, err := c.invEval(li, headPhis, li.headHeap).lemmaExpr(l.Expr)
			if err != nil {
				c.errorf("%s: loop %d lemma %q: %v", c.fnName(), li.ordinal, l.Text, err)
				continue
			}
			c.assume(imp(reachName, t))
		}
		if li.spec.Decreases != nil {
			t, _, err := c.invEval(li, headPhis, li.headHeap).expr(li.spec.Decreases.Expr, intT)
			if err != nil {
				c.errorf("%s: loop %d decreases: %v", c.fnName(), li.ordinal, err)
			} else {
				n := c.freshName("variant")
				c.def(n, "(_ BitVec 64)", t)
				li.variant0 = n
			}
		}
	}
	if li.variant0 == "" && li.autoVar != nil {
		n := c.freshName("variant")
		c.def(n, "(_ BitVec 64)", li.autoVar(headPhis))
		li.variant0 = n
	}
}

// invEval builds an evaluation context for loop invariants: locals by source name.
func (c *FnVC) invEval(li *loopInfo, phis map[*ssa.Phi]string, heap HeapState) *evalCtx {
	env := c.paramEnv()
	// phi-bound names
	phiNames := map[string]bool{}
	for p, t := range phis {
		if nm := p.Comment; nm != "" {
			env[nm] = envVal{t, p.Type()}
			phiNames[nm] = true
		}
	}
	// other locals: latest debug ref dominating the header, allocs by comment
	for obj, refs := range c.debug {
		nm := obj.Name()
		if phiNames[nm] {
			continue
		}
		if _, ok := env[nm]; ok {
			if _, isParam := c.paramByName(nm); !isParam {
				continue
			}
		}
		var best *ssa.DebugRef
		// an address-taken local lives in memory: its value is whatever the heap holds,
		// never a stale SSA load
		addrTaken := false
		for _, r := range refs {
			if r.IsAddr {
				addrTaken = true
			}
		}
		for _, r := range refs {
			if addrTaken && !r.IsAddr {
				continue
			}
			if r.IsAddr {
				// address-taken local: value lives in the heap. What must dominate the loop
				// is the allocation of the local, not the place where its address is noted.
				db := r.Block()
				if vb := valueBlock(r.X); vb != nil {
					db = vb
				}
				if db.Dominates(li.header) || db == li.header {
					if best == nil {
						best = r
					}
				}
				continue
			}
			vb := valueBlock(r.X)
			if vb != nil && li.blocks[vb] && vb != li.header {
				continue // defined inside the loop body
			}
			if _, isPhi := r.X.(*ssa.Phi); isPhi && vb == li.header {
				continue
			}
			if r.Block().Dominates(li.header) && r.Block() != li.header {
				if best == nil || best.Block().Dominates(r.Block()) {
					best = r
				}
			}
		}
		if best == nil {
			continue
		}
		if _, isParam := c.paramByName(nm); isParam && !best.IsAddr {
			// parameter reassigned before the loop: latest value wins
		}
		if best.IsAddr {
			pt, ok := best.X.Type().Underlying().(*types.Pointer)
			if !ok {
				continue
			}
			saved := c.cur
			c.cur = heap
			t := c.load(pt.Elem(), c.v(best.X))
			c.cur = saved
			env[nm] = envVal{t, pt.Elem()}
			env["&"+nm] = envVal{c.v(best.X), best.X.Type()} // &nm in invariants
			continue
		}
		if _, has := c.vals[best.X]; has || isConstVal(best.X) {
			env[nm] = envVal{c.v(best.X), best.X.Type()}
		}
	}
	// range loops: `it` is the number of completed iterations (hidden index + 1)
	for p, t := range phis {
		if p.Comment == "rangeindex" || p.Comment == "" {
			if k, ok := p.Edges[0].(*ssa.Const); ok && k.Value != nil && k.Int64() == -1 {
				if _, _, isInt := c.te.intWidth(p.Type()); isInt {
					env["it"] = envVal{fmt.Sprintf("(bvadd %s #x0000000000000001)", t), p.Type()}
				}
			}
		}
	}
	old := c.newEval(c.fn, c.paramEnv(), c.entry, nil)
	ev := c.newEval(c.fn, env, heap, old)
	// atentry(e): e in the state in which the loop was entered (heap and loop variables)
	if li.entryHeap != nil {
		eenv := map[string]envVal{}
		for k, v := range env {
			eenv[k] = v
		}
		for p := range phis {
			if nm := p.Comment; nm != "" {
				if t, ok := li.phiEntry[p]; ok {
					eenv[nm] = envVal{t, p.Type()}
				}
			}
		}
		ev.loopEntry = c.newEval(c.fn, eenv, li.entryHeap, old)
	}
	return ev
}

func (c *FnVC) paramByName(n string) (*ssa.Parameter, bool) {
	for _, p := range c.fn.Params {
		if p.Name() == n {
			return p, true
		}
	}
	return nil, false
}

func valueBlock(v ssa.Value) *ssa.BasicBlock {
	if in, ok := v.(ssa.Instruction); ok {
		return in.Block()
	}
	return nil
}

func (c *FnVC) loopLatch(li *loopInfo, b *ssa.BasicBlock) {
	// edge condition of the back edge
	si := succIndex(b, li.header, 0)
	ec := c.edgeCond(b, si)
	en := c.freshName(fmt.Sprintf("back_%d_%d", b.Index, li.header.Index))
	c.def(en, "Bool", ec)
	// phi values along this edge
	pi := -1
	for i, p := range li.header.Preds {
		if p == b {
			pi = i
		}
	}
	latchPhis := map[*ssa.Phi]string{}
	for _, in := range li.header.Instrs {
		phi, ok := in.(*ssa.Phi)
		if !ok {
			break
		}
		latchPhis[phi] = c.v(phi.Edges[pi])
	}
	for i, ai := range li.autoInv {
		c.obligeNamed("inv", fmt.Sprintf("loop%d.auto%d.preserved@b%d", li.ordinal, i+1, b.Index), ai.mk(latchPhis), en, "inferred invariant preserved: "+ai.descr, nil)
	}
	if li.spec != nil {
		for i, inv := range li.spec.Invariants {
			for j, cj := range splitConjDeep(inv.Expr, 0) {
				t, err := c.invEval(li, latchPhis, copyHeap(c.cur)).boolExpr(cj)
				if err != nil {
					c.errorf("%s: loop %d invariant %q: %v", c.fnName(), li.ordinal, inv.Text, err)
					continue
				}
				c.obligeNamed("inv", fmt.Sprintf("loop%d.inv%d.c%d.preserved@b%d", li.ordinal, i+1, j+1, b.Index), t, en, "invariant preserved: "+exprString(cj), nil)
			}
		}
	}
	// termination
	if li.variant0 != "" {
		var t1 string
		if li.spec != nil && li.spec.Decreases != nil {
			t, _, err := c.invEval(li, latchPhis, copyHeap(c.cur)).expr(li.spec.Decreases.Expr, intT)
			if err != nil {
				c.errorf("%s: loop %d decreases: %v", c.fnName(), li.ordinal, err)
				return
			}
			t1 = t
		} else {
			t1 = li.autoVar(latchPhis)
		}
		c.obligeNamed("decreases", fmt.Sprintf("loop%d.decreases@b%d", li.ordinal, b.Index),
			fmt.Sprintf("(and (bvsle #x0000000000000000 %s) (bvslt %s %s))", li.variant0, t1, li.variant0), en, "loop variant is bounded below and strictly decreases", nil)
	} else if c.ct != nil && c.ct.Terminates {
		c.obligeNamed("decreases", fmt.Sprintf("loop%d.novariant@b%d", li.ordinal, b.Index), "false", en, "loop has no variant (decreases clause missing)", nil)
	}
}

// autoInvariants: cheap inferred bounds for counting loops and range loops.
func (c *FnVC) autoInvariants(li *loopInfo, phis []*ssa.Phi) {
	outside := func(v ssa.Value) bool {
		switch x := v.(type) {
		case *ssa.Const, *ssa.Global, *ssa.Parameter, *ssa.FreeVar:
			return true
		case ssa.Instruction:
			return !li.blocks[x.Block()]
		}
		return false
	}
	// entry / back-edge operands
	for _, phi := range phis {
		w, signed, ok := c.te.intWidth(phi.Type())
		if !ok || !signed || w != 64 {
			continue
		}
		var init ssa.Value
		var steps []ssa.Value
		for i, p := range li.header.Preds {
			if li.blocks[p] && li.header.Dominates(p) {
				steps = append(steps, phi.Edges[i])
			} else {
				if init != nil && init != phi.Edges[i] {
					init = nil
					break
				}
				init = phi.Edges[i]
			}
		}
		if init == nil || !outside(init) || len(steps) == 0 {
			continue
		}
		// all steps must be phi + positive constant
		incr := true
		for _, s := range steps {
			if !isIncrOf(s, phi) {
				incr = false
			}
		}
		if !incr {
			continue
		}
		initT := c.v(init)
		p := phi
		// find an upper bound from a dominating comparison in the header: (phi' < X) or (phi < X)
		var bound ssa.Value
		cmpOnNext := false
		// a bound is loop-invariant if it is defined outside the loop, or is len/cap of a
		// slice or string value defined outside the loop (SSA values are immutable)
		invariantBound := func(v ssa.Value) bool {
			_, ok := c.hoistTerm(v, outside, 0)
			return ok
		}
		if iff, ok := li.header.Instrs[len(li.header.Instrs)-1].(*ssa.If); ok {
			if bo, ok := iff.Cond.(*ssa.BinOp); ok && bo.Op == token.LSS && invariantBound(bo.Y) && li.blocks[li.header.Succs[0]] {
				if bo.X == phi {
					bound = bo.Y
				} else if isIncrOf(bo.X, phi) && allSame(steps, bo.X) {
					bound = bo.Y
					cmpOnNext = true
				}
			}
		}
		li.autoInv = append(li.autoInv, autoInv{
			descr: fmt.Sprintf("%s >= its initial value", phiName(p)),
			mk:    func(m map[*ssa.Phi]string) string { return fmt.Sprintf("(bvsle %s %s)", initT, m[p]) },
		})
		if bound != nil {
			bt, _ := c.hoistTerm(bound, outside, 0)
			if w, signed, ok := c.te.intWidth(bound.Type()); ok && w < 64 {
				if signed {
					bt = fmt.Sprintf("((_ sign_extend %d) %s)", 64-w, bt)
				} else {
					bt = fmt.Sprintf("((_ zero_extend %d) %s)", 64-w, bt)
				}
			}
			if cmpOnNext {
				// range loop: phi in [-1, X)
				li.autoInv = append(li.autoInv, autoInv{
					descr: fmt.Sprintf("%s < bound or still initial", phiName(p)),
					mk: func(m map[*ssa.Phi]string) string {
						return fmt.Sprintf("(or (bvslt %s %s) (= %s %s))", m[p], bt, m[p], initT)
					},
				})
			} else {
				li.autoInv = append(li.autoInv, autoInv{
					descr: fmt.Sprintf("%s <= max(bound, initial)", phiName(p)),
					mk: func(m map[*ssa.Phi]string) string {
						return fmt.Sprintf("(or (bvsle %s %s) (= %s %s))", m[p], bt, m[p], initT)
					},
				})
			}
			if li.autoVar == nil {
				li.autoVar = func(m map[*ssa.Phi]string) string { return fmt.Sprintf("(bvsub %s %s)", bt, m[p]) }
			}
		}
	}
}

func phiName(p *ssa.Phi) string {
	if p.Comment != "" {
		return p.Comment
	}
	return p.Name()
}

func isIncrOf(v ssa.Value, phi *ssa.Phi) bool {
	bo, ok := v.(*ssa.BinOp)
	if !ok || bo.Op != token.ADD || bo.X != phi {
		return false
	}
	k, ok := bo.Y.(*ssa.Const)
	if !ok {
		return false
	}
	return k.Int64() > 0 && k.Int64() < 1<<20
}

// hoistTerm: the SMT term of a loop-invariant pure value that may be (re)computed inside
// the loop: a value defined outside the loop, or len/cap/field selection applied to such
// values (SSA values are immutable, so these do not change between iterations).
func (c *FnVC) hoistTerm(v ssa.Value, outside func(ssa.Value) bool, depth int) (string, bool) {
	if depth > 6 {
		return "", false
	}
	if outside(v) {
		return c.v(v), true
	}
	switch x := v.(type) {
	case *ssa.Call:
		bi, ok := x.Call.Value.(*ssa.Builtin)
		if !ok || (bi.Name() != "len" && bi.Name() != "cap") || len(x.Call.Args) != 1 {
			return "", false
		}
		a := x.Call.Args[0]
		at, ok := c.hoistTerm(a, outside, depth+1)
		if !ok {
			return "", false
		}
		switch u := a.Type().Underlying().(type) {
		case *types.Slice:
			return fmt.Sprintf("(s_%s %s)", bi.Name(), at), true
		case *types.Basic:
			return fmt.Sprintf("(str_len %s)", at), true
		case *types.Array:
			return bv64(u.Len()), true
		case *types.Pointer:
			if arr, ok := u.Elem().Underlying().(*types.Array); ok {
				return bv64(arr.Len()), true
			}
		}
	case *ssa.Field:
		xt, ok := c.hoistTerm(x.X, outside, depth+1)
		if !ok {
			return "", false
		}
		st := x.X.Type().Underlying().(*types.Struct)
		return fmt.Sprintf("(%s_f%d %s)", c.te.structOf(st).name, x.Field, xt), true
	case *ssa.ChangeType:
		return c.hoistTerm(x.X, outside, depth+1)
	case *ssa.FieldAddr:
		xt, ok := c.hoistTerm(x.X, outside, depth+1)
		if !ok {
			return "", false
		}
		return fmt.Sprintf("(fld %s %d)", xt, x.Field), true
	}
	return "", false
}

func allSame(vs []ssa.Value, x ssa.Value) bool {
	for _, v := range vs {
		if v != x {
			return false
		}
	}
	return len(vs) > 0
}

// assumedPureCall: a call without contract that the function's contract lists under
// assume_pure (same description strings as FnVC.unknownCall).
func (c *FnVC) assumedPureCall(cc *ssa.CallCommon) bool {
	if c.ct == nil || len(c.ct.AssumePure) == 0 {
		return false
	}
	var desc string
	switch {
	case cc.IsInvoke():
		desc = "interface method " + cc.Method.FullName()
	case cc.StaticCallee() != nil:
		desc = "static call " + cc.StaticCallee().String()
	default:
		desc = "funcvalue call of function value " + cc.Value.Name()
	}
	for _, a := range c.ct.AssumePure {
		if a != "" && strings.Contains(desc, a) {
			return true
		}
	}
	return false
}
