package main

// Replay of solver models against the real code (go test -overlay). See tryReplay.

func tryReplay(P *Prog, verif, prop string, o *Obligation) map[string]any {
	return nil
}
