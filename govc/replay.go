package main

// Replay of solver models against the real code.
//
// For a failed obligation with a (candidate) model, the inputs of the function are
// read off the model, a Go test that calls the REAL function with those inputs is
// injected with `go test -overlay` (nothing is written into /repo), and what the real
// code does is compared with what the model predicts:
//   - panic-class obligations: confirmed when the real call panics;
//   - postconditions: confirmed when the real call's observable outputs (results and the
//     final contents of everything reachable from pointer parameters) equal the outputs
//     the model predicts - the solver has shown the clause false for exactly those values.
// Anything else (unsupported parameter types, model not faithful) is reported as
// not confirmed: the VIOLATION line then ends with no-failing-input-found.

import (
	"context"
	"encoding/json"
	"fmt"
	"go/types"
	"os"
	"os/exec"
	"path/filepath"
	"sort"
	"strconv"
	"strings"

	"golang.org/x/tools/go/ssa"
)

const replayMaxElems = 48

type obsItem struct {
	name string // obs symbol
	term string
	sort string
}

type replayBuilder struct {
	c      *FnVC
	obs    []obsItem
	bounds []string
	unsup  string
	n      int
}

func (rb *replayBuilder) add(term, sort string) string {
	rb.n++
	name := fmt.Sprintf("obs_%d", rb.n)
	rb.obs = append(rb.obs, obsItem{name, term, sort})
	return name
}

// value tree describing how to observe / rebuild a Go value
type valNode struct {
	t        types.Type
	kind     string // int, bool, string, slice, ptr, struct, unsupported
	scalar   string // obs name (int/bool)
	strLen   string
	strBytes []string
	// slice
	isNil, base, off, ln, cp string
	elems                      []*valNode // element values (entry or final heap)
	// pointer
	loc    string
	pnil   string
	target *valNode
	fields []*valNode
}

func (rb *replayBuilder) observe(t types.Type, term string, heap HeapState, depth int) *valNode {
	c := rb.c
	n := &valNode{t: t}
	if depth > 4 {
		n.kind = "unsupported"
		rb.unsup = "value nesting too deep"
		return n
	}
	switch u := t.Underlying().(type) {
	case *types.Basic:
		switch {
		case u.Info()&types.IsInteger != 0:
			n.kind = "int"
			n.scalar = rb.add(term, c.te.sortOf(t))
		case u.Info()&types.IsBoolean != 0:
			n.kind = "bool"
			n.scalar = rb.add(term, "Bool")
		case u.Info()&types.IsString != 0:
			n.kind = "string"
			n.strLen = rb.add("(str_len "+term+")", "(_ BitVec 64)")
			rb.bounds = append(rb.bounds, fmt.Sprintf("(bvsle (str_len %s) %s)", term, bv64(replayMaxElems)))
			for i := 0; i < replayMaxElems; i++ {
				n.strBytes = append(n.strBytes, rb.add(fmt.Sprintf("(select (str_arr %s) %s)", term, bv64(int64(i))), "(_ BitVec 8)"))
			}
		default:
			n.kind = "unsupported"
			rb.unsup = "parameter of type " + t.String()
		}
	case *types.Slice:
		ek := c.te.kindOf(u.Elem())
		if _, _, isInt := c.te.intWidth(u.Elem()); !isInt || ek == "" {
			n.kind = "unsupported"
			rb.unsup = "slice of " + u.Elem().String()
			return n
		}
		n.kind = "slice"
		n.isNil = rb.add(fmt.Sprintf("(= (s_arr %s) NullLoc)", term), "Bool")
		n.base = rb.add(fmt.Sprintf("(s_arr %s)", term), "Loc")
		n.off = rb.add(fmt.Sprintf("(s_off %s)", term), "(_ BitVec 64)")
		n.ln = rb.add(fmt.Sprintf("(s_len %s)", term), "(_ BitVec 64)")
		n.cp = rb.add(fmt.Sprintf("(s_cap %s)", term), "(_ BitVec 64)")
		rb.bounds = append(rb.bounds, fmt.Sprintf("(bvsle (s_cap %s) %s)", term, bv64(replayMaxElems)), fmt.Sprintf("(bvsle (s_off %s) %s)", term, bv64(replayMaxElems)))
		h := c.hOf(heap, ek)
		for i := 0; i < replayMaxElems; i++ {
			e := &valNode{t: u.Elem(), kind: "int"}
			e.scalar = rb.add(fmt.Sprintf("(select %s (elem %s %s))", h, term, bv64(int64(i))), c.te.sortOf(u.Elem()))
			n.elems = append(n.elems, e)
		}
	case *types.Pointer:
		n.kind = "ptr"
		n.loc = rb.add(term, "Loc")
		n.pnil = rb.add(fmt.Sprintf("(= %s NullLoc)", term), "Bool")
		saved := c.cur
		c.cur = heap
		defer func() { c.cur = saved }()
		switch u.Elem().Underlying().(type) {
		case *types.Struct, *types.Basic, *types.Slice:
			lt := c.load(u.Elem(), term)
			n.target = rb.observe(u.Elem(), lt, heap, depth+1)
		default:
			n.kind = "unsupported"
			rb.unsup = "pointer to " + u.Elem().String()
		}
	case *types.Struct:
		n.kind = "struct"
		si := c.te.structOf(u)
		for i := 0; i < u.NumFields(); i++ {
			n.fields = append(n.fields, rb.observe(u.Field(i).Type(), fmt.Sprintf("(%s_f%d %s)", si.name, i, term), heap, depth+1))
		}
	default:
		n.kind = "unsupported"
		rb.unsup = "parameter of type " + t.String()
	}
	return n
}

// ---- model values

type modelVals map[string]string

func parseGetValue(out string) modelVals {
	mv := modelVals{}
	// output: ((obs_1 val)\n (obs_2 val) ...)
	i := strings.Index(out, "((")
	if i < 0 {
		return mv
	}
	s := out[i+1:]
	depth := 0
	start := -1
	for j := 0; j < len(s); j++ {
		switch s[j] {
		case '(':
			if depth == 0 {
				start = j
			}
			depth++
		case ')':
			depth--
			if depth == 0 && start >= 0 {
				item := s[start+1 : j]
				if k := strings.IndexAny(item, " \n"); k > 0 {
					mv[item[:k]] = strings.Join(strings.Fields(item[k+1:]), " ")
				}
				start = -1
			}
			if depth < 0 {
				return mv
			}
		}
	}
	return mv
}

func bvVal(s string) (uint64, bool) {
	s = strings.TrimSpace(s)
	if strings.HasPrefix(s, "#x") {
		v, err := strconv.ParseUint(s[2:], 16, 64)
		return v, err == nil
	}
	if strings.HasPrefix(s, "#b") {
		v, err := strconv.ParseUint(s[2:], 2, 64)
		return v, err == nil
	}
	return 0, false
}

// ---- Go source generation

type goGen struct {
	c       *FnVC
	mv      modelVals
	decls   []string
	imports map[string]string // path -> alias
	nvar    int
	arrays  map[string]string // base loc -> array var (per element type)
	ptrs    map[string]string // loc -> pointee var
	err     string
}

func (g *goGen) qual(p *types.Package) string {
	if p == g.c.fn.Pkg.Pkg {
		return ""
	}
	if a, ok := g.imports[p.Path()]; ok {
		return a
	}
	a := fmt.Sprintf("vp%d_%s", len(g.imports), p.Name())
	g.imports[p.Path()] = a
	return a
}

func (g *goGen) typeStr(t types.Type) string { return types.TypeString(t, g.qual) }

func (g *goGen) intLit(t types.Type, v uint64) string {
	w, signed, _ := g.c.te.intWidth(t)
	if signed {
		var sv int64
		switch w {
		case 8:
			sv = int64(int8(v))
		case 16:
			sv = int64(int16(v))
		case 32:
			sv = int64(int32(v))
		default:
			sv = int64(v)
		}
		return fmt.Sprintf("%s(%d)", g.typeStr(t), sv)
	}
	return fmt.Sprintf("%s(%d)", g.typeStr(t), v&mask(w))
}

// expr returns a Go expression rebuilding the value described by n.
func (g *goGen) expr(n *valNode) string {
	switch n.kind {
	case "int":
		v, ok := bvVal(g.mv[n.scalar])
		if !ok {
			g.err = "no model value for " + n.scalar
		}
		return g.intLit(n.t, v)
	case "bool":
		return fmt.Sprintf("%s(%s)", g.typeStr(n.t), g.mv[n.scalar])
	case "string":
		l, _ := bvVal(g.mv[n.strLen])
		if l > replayMaxElems {
			g.err = "string too long in model"
			return `""`
		}
		var bs []string
		for i := uint64(0); i < l; i++ {
			b, _ := bvVal(g.mv[n.strBytes[i]])
			bs = append(bs, fmt.Sprint(b))
		}
		return fmt.Sprintf("%s([]byte{%s})", g.typeStr(n.t), strings.Join(bs, ","))
	case "slice":
		if g.mv[n.isNil] == "true" {
			return fmt.Sprintf("%s(nil)", g.typeStr(n.t))
		}
		off, _ := bvVal(g.mv[n.off])
		ln, _ := bvVal(g.mv[n.ln])
		cp, _ := bvVal(g.mv[n.cp])
		if cp > replayMaxElems || off > replayMaxElems || ln > cp {
			g.err = "slice too large in model"
			return "nil"
		}
		et := n.t.Underlying().(*types.Slice).Elem()
		key := g.mv[n.base] + "/" + et.String()
		arr, ok := g.arrays[key]
		if !ok {
			g.nvar++
			arr = fmt.Sprintf("arr%d", g.nvar)
			g.arrays[key] = arr
			g.decls = append(g.decls, fmt.Sprintf("%s := make([]%s, %d)", arr, g.typeStr(et), 2*replayMaxElems+2))
		}
		for i := uint64(0); i < ln; i++ {
			v, _ := bvVal(g.mv[n.elems[i].scalar])
			g.decls = append(g.decls, fmt.Sprintf("%s[%d] = %s", arr, off+i, g.intLit(et, v)))
		}
		return fmt.Sprintf("%s(%s[%d:%d:%d])", g.typeStr(n.t), arr, off, off+ln, off+cp)
	case "ptr":
		if g.mv[n.pnil] == "true" {
			return fmt.Sprintf("(%s)(nil)", g.typeStr(n.t))
		}
		loc := g.mv[n.loc]
		pt := n.t.Underlying().(*types.Pointer).Elem()
		key := loc + "/" + pt.String()
		v, ok := g.ptrs[key]
		if !ok {
			g.nvar++
			v = fmt.Sprintf("obj%d", g.nvar)
			g.ptrs[key] = v
			init := g.expr(n.target)
			g.decls = append(g.decls, fmt.Sprintf("var %s %s = %s", v, g.typeStr(pt), init))
		}
		return fmt.Sprintf("(%s)(&%s)", g.typeStr(n.t), v)
	case "struct":
		st := n.t.Underlying().(*types.Struct)
		var fs []string
		for i, f := range n.fields {
			fs = append(fs, fmt.Sprintf("%s: %s", st.Field(i).Name(), g.expr(f)))
		}
		return fmt.Sprintf("%s{%s}", g.typeStr(n.t), strings.Join(fs, ", "))
	}
	g.err = "unsupported value"
	return "nil"
}

// dump returns Go statements appending a canonical rendering of the value to `out`.
func dumpStmt(n *valNode, goExpr string, label string) string {
	return fmt.Sprintf("out = append(out, %q+\"=\"+vpDump(%s))", label, goExpr)
}

// expected renders the model's value of n canonically (same format as vpDump).
func (g *goGen) expected(n *valNode) string {
	switch n.kind {
	case "int":
		v, _ := bvVal(g.mv[n.scalar])
		w, signed, _ := g.c.te.intWidth(n.t)
		if signed {
			switch w {
			case 8:
				return fmt.Sprint(int64(int8(v)))
			case 16:
				return fmt.Sprint(int64(int16(v)))
			case 32:
				return fmt.Sprint(int64(int32(v)))
			}
			return fmt.Sprint(int64(v))
		}
		return fmt.Sprint(v & mask(w))
	case "bool":
		return g.mv[n.scalar]
	case "string":
		l, _ := bvVal(g.mv[n.strLen])
		var bs []string
		for i := uint64(0); i < l && i < replayMaxElems; i++ {
			b, _ := bvVal(g.mv[n.strBytes[i]])
			bs = append(bs, fmt.Sprint(b))
		}
		return "str[" + strings.Join(bs, " ") + "]"
	case "slice":
		if g.mv[n.isNil] == "true" {
			return "nil"
		}
		ln, _ := bvVal(g.mv[n.ln])
		var es []string
		for i := uint64(0); i < ln && i < replayMaxElems; i++ {
			es = append(es, g.expected(n.elems[i]))
		}
		return fmt.Sprintf("len=%d[%s]", ln, strings.Join(es, " "))
	case "ptr":
		if g.mv[n.pnil] == "true" {
			return "nilptr"
		}
		return "&" + g.expected(n.target)
	case "struct":
		var fs []string
		for _, f := range n.fields {
			fs = append(fs, g.expected(f))
		}
		return "{" + strings.Join(fs, ",") + "}"
	}
	return "?"
}

const vpDumpSrc = `
func vpDump(v interface{}) string {
	rv := reflect.ValueOf(v)
	return vpDumpV(rv)
}
func vpDumpV(rv reflect.Value) string {
	switch rv.Kind() {
	case reflect.Int, reflect.Int8, reflect.Int16, reflect.Int32, reflect.Int64:
		return fmt.Sprint(rv.Int())
	case reflect.Uint, reflect.Uint8, reflect.Uint16, reflect.Uint32, reflect.Uint64, reflect.Uintptr:
		return fmt.Sprint(rv.Uint())
	case reflect.Bool:
		return fmt.Sprint(rv.Bool())
	case reflect.String:
		s := rv.String()
		var bs []string
		for i := 0; i < len(s); i++ {
			bs = append(bs, fmt.Sprint(s[i]))
		}
		return "str[" + strings.Join(bs, " ") + "]"
	case reflect.Slice:
		if rv.IsNil() {
			return "nil"
		}
		var es []string
		for i := 0; i < rv.Len(); i++ {
			es = append(es, vpDumpV(rv.Index(i)))
		}
		return fmt.Sprintf("len=%d[%s]", rv.Len(), strings.Join(es, " "))
	case reflect.Ptr:
		if rv.IsNil() {
			return "nilptr"
		}
		return "&" + vpDumpV(rv.Elem())
	case reflect.Struct:
		var fs []string
		for i := 0; i < rv.NumField(); i++ {
			fs = append(fs, vpDumpV(rv.Field(i)))
		}
		return "{" + strings.Join(fs, ",") + "}"
	case reflect.Interface:
		if rv.IsNil() {
			return "niliface"
		}
		return "iface"
	}
	return "?"
}
`

var panicClasses = map[string]bool{"bounds": true, "slice": true, "nil": true, "div": true, "shift": true, "make": true, "panic": true, "typeassert": true, "nilmap": true, "nilfunc": true}

func tryReplay(P *Prog, verif, prop string, o *Obligation) map[string]any {
	res := map[string]any{"confirmed": false}
	c := o.Fn
	if c == nil || c.fn == nil || c.fn.Pkg == nil {
		return nil
	}
	if c.fn.Parent() != nil || len(c.fn.FreeVars) > 0 {
		res["replay_skipped"] = "closure"
		return res
	}
	isPanic := panicClasses[o.Class]
	if !isPanic && o.Class != "ensures" {
		res["replay_skipped"] = "obligation class " + o.Class + " has no directly observable effect on the function's interface"
		return res
	}
	rb := &replayBuilder{c: c}
	saveOut := len(c.out)
	var ins []*valNode
	for _, p := range c.fn.Params {
		ins = append(ins, rb.observe(p.Type(), c.vals[p], c.entry, 0))
	}
	// globals of basic type read by the function
	type gobs struct {
		g *ssa.Global
		n *valNode
	}
	var globs []gobs
	for g := range c.globals {
		pt := g.Type().(*types.Pointer).Elem()
		if b, ok := pt.Underlying().(*types.Basic); ok && b.Info()&(types.IsBoolean|types.IsInteger) != 0 {
			saved := c.cur
			c.cur = c.entry
			t := c.load(pt, c.globalLoc(g))
			c.cur = saved
			globs = append(globs, gobs{g, rb.observe(pt, t, c.entry, 0)})
		}
	}
	sort.Slice(globs, func(i, j int) bool { return globs[i].g.Name() < globs[j].g.Name() })
	// predicted outputs
	var outs []*valNode
	var outsPost []*valNode
	if !isPanic && c.retVals != nil {
		rs := c.fn.Signature.Results()
		for i := 0; i < rs.Len(); i++ {
			switch rs.At(i).Type().Underlying().(type) {
			case *types.Interface:
				// only nil-ness of interface results (errors) is compared
				n := &valNode{t: rs.At(i).Type(), kind: "ifacenil"}
				n.scalar = rb.add(fmt.Sprintf("(= (i_typ %s) 0)", c.retVals[i]), "Bool")
				outs = append(outs, n)
			default:
				outs = append(outs, rb.observe(rs.At(i).Type(), c.retVals[i], c.retHeap, 0))
			}
		}
		for _, p := range c.fn.Params {
			if _, ok := p.Type().Underlying().(*types.Pointer); ok {
				outsPost = append(outsPost, rb.observe(p.Type(), c.vals[p], c.retHeap, 0))
			} else {
				outsPost = append(outsPost, nil)
			}
		}
	}
	extraDefs := append([]string{}, c.out[saveOut:]...)
	c.out = c.out[:saveOut]
	if rb.unsup != "" {
		res["replay_skipped"] = "unsupported for replay: " + rb.unsup
		return res
	}
	// query: original (without quantified axioms unless the verdict was a real sat), bounds, get-value
	base := o.smt(false)
	base = strings.Replace(base, "(check-sat)\n", "", 1)
	if o.Verdict != "sat" {
		base = dropQuantified(base)
	}
	var q strings.Builder
	q.WriteString(base)
	for _, l := range extraDefs {
		q.WriteString(l + "\n")
	}
	for _, ob := range rb.obs {
		fmt.Fprintf(&q, "(define-fun %s () %s %s)\n", ob.name, ob.sort, ob.term)
	}
	var names []string
	for _, ob := range rb.obs {
		names = append(names, ob.name)
	}
	withBounds := q.String()
	for _, b := range rb.bounds {
		withBounds += "(assert " + b + ")\n"
	}
	tail := "(check-sat)\n(get-value (" + strings.Join(names, " ") + "))\n"
	v, out := raceForModel(withBounds+tail, o.Solver, 40)
	if v != "sat" {
		res["replay_skipped"] = "no small model (all inputs within " + fmt.Sprint(replayMaxElems) + " elements): " + v
		return res
	}
	mv := parseGetValue(out)
	g := &goGen{c: c, mv: mv, imports: map[string]string{}, arrays: map[string]string{}, ptrs: map[string]string{}}
	var args []string
	for _, n := range ins {
		args = append(args, g.expr(n))
	}
	var setGlobals []string
	inputDescr := map[string]string{}
	for _, gb := range globs {
		name := gb.g.Name()
		if gb.g.Pkg != c.fn.Pkg {
			name = g.qual(gb.g.Pkg.Pkg) + "." + name
		}
		setGlobals = append(setGlobals, fmt.Sprintf("%s = %s", name, g.expr(gb.n)))
		inputDescr["global "+name] = g.expected(gb.n)
	}
	if g.err != "" {
		res["replay_skipped"] = g.err
		return res
	}
	for i, p := range c.fn.Params {
		inputDescr[p.Name()] = g.expected(ins[i])
	}
	// call expression
	sig := c.fn.Signature
	var call string
	if sig.Recv() != nil {
		call = fmt.Sprintf("(%s).%s(%s)", "a0", c.fn.Name(), joinArgs(len(args)-1, 1))
	} else {
		call = fmt.Sprintf("%s(%s)", c.fn.Name(), joinArgs(len(args), 0))
	}
	nres := sig.Results().Len()
	var b strings.Builder
	fmt.Fprintf(&b, "package %s\n\nimport (\n\t\"fmt\"\n\t\"reflect\"\n\t\"strings\"\n\t\"testing\"\n", c.fn.Pkg.Pkg.Name())
	for p, a := range g.imports {
		fmt.Fprintf(&b, "\t%s %q\n", a, p)
	}
	b.WriteString(")\n\nvar _ = strings.Join\nvar _ = reflect.ValueOf\n" + vpDumpSrc)
	b.WriteString("\nfunc TestVerifReplay(t *testing.T) {\n\tvar out []string\n")
	for _, d := range g.decls {
		b.WriteString("\t" + d + "\n")
	}
	for i, a := range args {
		fmt.Fprintf(&b, "\ta%d := %s\n\t_ = a%d\n", i, a, i)
	}
	for _, s := range setGlobals {
		b.WriteString("\t" + s + "\n")
	}
	b.WriteString("\tfunc() {\n\t\tdefer func() {\n\t\t\tif r := recover(); r != nil {\n\t\t\t\tfmt.Printf(\"VERIF-REPLAY-PANIC: %v\\n\", r)\n\t\t\t}\n\t\t}()\n")
	if nres == 0 {
		fmt.Fprintf(&b, "\t\t%s\n", call)
	} else {
		var rs []string
		for i := 0; i < nres; i++ {
			rs = append(rs, fmt.Sprintf("r%d", i))
		}
		fmt.Fprintf(&b, "\t\t%s := %s\n", strings.Join(rs, ", "), call)
		for i := 0; i < nres; i++ {
			if _, isI := sig.Results().At(i).Type().Underlying().(*types.Interface); isI {
				fmt.Fprintf(&b, "\t\tout = append(out, fmt.Sprintf(\"result%d=isnil:%%v\", r%d == nil))\n", i, i)
			} else {
				fmt.Fprintf(&b, "\t\tout = append(out, \"result%d=\"+vpDump(r%d))\n", i, i)
			}
		}
	}
	for i, p := range c.fn.Params {
		if _, ok := p.Type().Underlying().(*types.Pointer); ok {
			fmt.Fprintf(&b, "\t\tout = append(out, \"%s=\"+vpDump(a%d))\n", p.Name(), i)
		}
	}
	b.WriteString("\t\tfmt.Printf(\"VERIF-REPLAY-OUT: %s\\n\", strings.Join(out, \"; \"))\n\t}()\n}\n")
	// expected output line
	var exp []string
	if !isPanic {
		for i, n := range outs {
			if n.kind == "ifacenil" {
				exp = append(exp, fmt.Sprintf("result%d=isnil:%s", i, mv[n.scalar]))
			} else {
				exp = append(exp, fmt.Sprintf("result%d=%s", i, g.expected(n)))
			}
		}
		for i, p := range c.fn.Params {
			if outsPost[i] != nil {
				exp = append(exp, fmt.Sprintf("%s=%s", p.Name(), g.expected(outsPost[i])))
			}
		}
	}
	dir := filepath.Join(verif, "evidence", "replays")
	testPath := filepath.Join(dir, prop+"-"+sanitize(o.Name)+"_test.go")
	os.WriteFile(testPath, []byte(b.String()), 0o644)
	pkgDir := filepath.Dir(P.prog.Fset.Position(c.fn.Pos()).Filename)
	ov := map[string]any{"Replace": map[string]string{filepath.Join(pkgDir, "zz_verif_replay_test.go"): testPath}}
	ovj, _ := json.Marshal(ov)
	ovPath := strings.TrimSuffix(testPath, "_test.go") + ".overlay.json"
	os.WriteFile(ovPath, ovj, 0o644)
	repoRoot := repoRootOf(pkgDir)
	goBin := "/opt/veriftools/go1.26.8/bin/go" // /repo needs this toolchain (go.mod: go 1.25)
	if _, err := os.Stat(goBin); err != nil {
		goBin = "go"
	}
	cmd := exec.Command(goBin, "test", "-overlay", ovPath, "-vet=off", "-count=1", "-timeout", "60s", "-run", "^TestVerifReplay$", "-v", "./"+relPath(repoRoot, pkgDir))
	cmd.Dir = repoRoot
	cmd.Env = append(os.Environ(), "GOFLAGS=-mod=mod", "GOPROXY=off", "GOSUMDB=off", "GOTOOLCHAIN=local", "PATH=/opt/veriftools/go1.26.8/bin:"+os.Getenv("PATH"))
	outb, _ := cmd.CombinedOutput()
	runOut := string(outb)
	res["replay_test"] = testPath
	res["replay_overlay"] = ovPath
	res["replay_cmd"] = "cd " + repoRoot + " && go test -overlay " + ovPath + " -vet=off -count=1 -timeout 60s -run '^TestVerifReplay$' -v ./" + relPath(repoRoot, pkgDir)
	res["input"] = inputDescr
	var panicMsg, outLine string
	for _, l := range strings.Split(runOut, "\n") {
		l = strings.TrimSpace(l)
		if strings.HasPrefix(l, "VERIF-REPLAY-PANIC:") {
			panicMsg = strings.TrimSpace(strings.TrimPrefix(l, "VERIF-REPLAY-PANIC:"))
		}
		if strings.HasPrefix(l, "VERIF-REPLAY-OUT:") {
			outLine = strings.TrimSpace(strings.TrimPrefix(l, "VERIF-REPLAY-OUT:"))
		}
	}
	res["observed_panic"] = panicMsg
	res["observed_output"] = outLine
	if panicMsg == "" && outLine == "" {
		res["replay_skipped"] = "replay test did not run: " + truncate(runOut, 2000)
		return res
	}
	if isPanic {
		res["confirmed"] = panicMsg != ""
		if panicMsg == "" {
			res["replay_note"] = "the real code does not panic on the model's input (model not faithful, e.g. through an abstracted call)"
		}
		return res
	}
	expLine := strings.Join(exp, "; ")
	res["predicted_output"] = expLine
	if panicMsg != "" {
		res["confirmed"] = true
		res["replay_note"] = "the real code panics on this input"
		return res
	}
	if expLine == outLine {
		res["confirmed"] = true
		res["replay_note"] = "the real code produces exactly the outputs for which the solver refuted the clause: " + o.Descr
	} else {
		res["replay_note"] = "observed outputs differ from the model's prediction (model not faithful to the real execution)"
	}
	return res
}

func joinArgs(n, from int) string {
	var as []string
	for i := from; i < from+n; i++ {
		as = append(as, fmt.Sprintf("a%d", i))
	}
	return strings.Join(as, ", ")
}

func repoRootOf(dir string) string {
	d := dir
	for d != "/" {
		if _, err := os.Stat(filepath.Join(d, "go.mod")); err == nil {
			return d
		}
		d = filepath.Dir(d)
	}
	return dir
}

func relPath(root, dir string) string {
	r, err := filepath.Rel(root, dir)
	if err != nil {
		return "."
	}
	return r
}

// raceForModel runs the bounded model query on every solver configuration that can
// print models (the configuration that found the original model included) and returns
// the first sat answer; the verdict of the last finisher otherwise.
func raceForModel(query, winner string, timeoutS int) (string, string) {
	ctx, cancel := context.WithCancel(context.Background())
	defer cancel()
	type ans struct{ v, out string }
	var cands []solverSpec
	for _, s := range solvers {
		if s.name == "z3" { // 4.8.12 prints models in another dialect
			continue
		}
		cands = append(cands, s)
	}
	ch := make(chan ans, len(cands))
	for _, s := range cands {
		go func(s solverSpec) {
			in := query
			if s.name == "cvc5" {
				in = "(set-option :produce-models true)\n" + in
			}
			v, out, _ := runSolverCtx(ctx, s, in, timeoutS, nil)
			ch <- ans{v, out}
		}(s)
	}
	last := ans{"unknown", ""}
	for range cands {
		a := <-ch
		if a.v == "sat" {
			return a.v, a.out
		}
		last = a
	}
	_ = winner
	return last.v, last.out
}
