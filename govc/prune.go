package main

// Relevance pruning of heap frame axioms. Every call of an allocating callee creates a new
// version of every heap component with a quantified frame axiom; a goal about one component
// does not need the chains of the others, and E-matching over them dominates solver time on
// long functions (measured: 15 s -> 1.6 s on dsa.Verify#frame.iface, 193 of 216 axioms
// dropped). Dropping assumptions is sound (it can only make a proof harder), so a pruned
// query may answer `unsat` with full authority; its `sat`/`unknown` mean nothing and the
// unpruned query decides.
//
// Kept: every heap axiom (a top-level `(assert (forall ((l Loc)) ... :pattern ((select H_x l))))`)
// whose heap version is in the cone of the goal: the symbols of guard and goal, closed under
// define-fun bodies and under the kept axioms themselves (an axiom of version n mentions
// version n-1, so whole chains of the relevant components stay). All other lines stay as
// they are.

import (
	"regexp"
	"strings"
)

var symRe = regexp.MustCompile(`[A-Za-z_][A-Za-z0-9_!\.]*`)
var heapAxRe = regexp.MustCompile(`:pattern \(\(select (H_[A-Za-z0-9_]+) l\)\)`)
var defRe = regexp.MustCompile(`^\((define-fun|declare-const|declare-fun) ([^ ()]+)`)

func isHeapAxiom(l string) (string, bool) {
	if !strings.HasPrefix(l, "(assert (forall ((l Loc))") {
		return "", false
	}
	m := heapAxRe.FindStringSubmatch(l)
	if m == nil {
		return "", false
	}
	return m[1], true
}

// pruneHeapAxioms returns the lines of pre without the heap axioms outside the cone of tail.
func pruneHeapAxioms(pre []string, tail string) ([]string, int) {
	defs := map[string]string{}
	axioms := map[string][]int{}
	for i, l := range pre {
		if h, ok := isHeapAxiom(l); ok {
			axioms[h] = append(axioms[h], i)
			continue
		}
		if m := defRe.FindStringSubmatch(l); m != nil && m[1] == "define-fun" {
			defs[m[2]] = l
		}
	}
	if len(axioms) == 0 {
		return pre, 0
	}
	seen := map[string]bool{}
	keep := map[int]bool{}
	work := symRe.FindAllString(tail, -1)
	for len(work) > 0 {
		s := work[len(work)-1]
		work = work[:len(work)-1]
		if seen[s] {
			continue
		}
		seen[s] = true
		if d, ok := defs[s]; ok {
			work = append(work, symRe.FindAllString(d, -1)...)
		}
		for _, i := range axioms[s] {
			if !keep[i] {
				keep[i] = true
				work = append(work, symRe.FindAllString(pre[i], -1)...)
			}
		}
	}
	out := make([]string, 0, len(pre))
	dropped := 0
	for i, l := range pre {
		if _, ok := isHeapAxiom(l); ok && !keep[i] {
			dropped++
			continue
		}
		out = append(out, l)
	}
	return out, dropped
}
