package main

// Global invariants: `//@ global <expr>` in a package's contract file states a fact about
// package-level variables. It is assumed at the entry of every function of that package,
// justified by (1) a mechanical check that no function other than the package
// initialiser stores to the variables it mentions and (2) the initialiser itself, which
// is NOT verified - the invariant is therefore listed as an assumption in the evidence.

import (
	"fmt"
	"go/ast"
	"go/types"
	"sort"
	"strings"

	"golang.org/x/tools/go/ssa"
)

func (c *FnVC) assumeGlobalInvariants(ev *evalCtx) {
	if c.fn.Pkg == nil {
		return
	}
	pkgPath := c.fn.Pkg.Pkg.Path()
	var keys []string
	for k, ct := range c.P.contracts {
		if ct.IsGlobal && ct.Pkg == pkgPath {
			keys = append(keys, k)
		}
	}
	sort.Strings(keys)
	for _, k := range keys {
		ct := c.P.contracts[k]
		if ct.PredBody == nil {
			continue
		}
		if err := c.P.checkGlobalStores(c.fn.Pkg, ct); err != nil {
			c.errorf("%s:%d: %v", ct.File, ct.Line, err)
			continue
		}
		t, err := ev.boolExpr(ct.PredBody.Expr)
		if err != nil {
			c.errorf("%s:%d: global invariant %q: %v", ct.File, ct.Line, ct.PredBody.Text, err)
			continue
		}
		c.comment("global invariant " + ct.PredBody.Text)
		c.assume(t)
		c.trustedUsed["global invariant of "+c.fn.Pkg.Pkg.Name()+": "+ct.PredBody.Text+" (established by the package initialiser, not verified; no other function stores to the variables)"] = true
	}
}

// checkGlobalStores: the package-level variables named in the invariant are stored to
// only by the package initialiser.
func (P *Prog) checkGlobalStores(sp *ssa.Package, ct *Contract) error {
	if P.globalChecked == nil {
		P.globalChecked = map[string]error{}
	}
	key := ct.Key()
	if err, ok := P.globalChecked[key]; ok {
		return err
	}
	vars := map[*ssa.Global]bool{}
	ast.Inspect(ct.PredBody.Expr, func(n ast.Node) bool {
		if id, ok := n.(*ast.Ident); ok {
			if o, ok := sp.Pkg.Scope().Lookup(id.Name).(*types.Var); ok {
				if g, ok := sp.Members[o.Name()].(*ssa.Global); ok {
					vars[g] = true
				}
			}
		}
		return true
	})
	var err error
	for _, f := range allFuncs(P.prog, sp) {
		if f.Name() == "init" || strings.HasPrefix(f.Name(), "init#") || strings.HasPrefix(f.Name(), "init$") {
			continue
		}
		for _, b := range f.Blocks {
			for _, in := range b.Instrs {
				st, ok := in.(*ssa.Store)
				if !ok {
					continue
				}
				if g := rootGlobal(st.Addr, 0); g != nil && vars[g] {
					err = fmt.Errorf("global invariant mentions %s, which is assigned in %s", g.Name(), f.String())
				}
			}
		}
	}
	P.globalChecked[key] = err
	return err
}

func rootGlobal(v ssa.Value, depth int) *ssa.Global {
	if depth > 6 {
		return nil
	}
	switch x := v.(type) {
	case *ssa.Global:
		return x
	case *ssa.FieldAddr:
		return rootGlobal(x.X, depth+1)
	case *ssa.IndexAddr:
		return rootGlobal(x.X, depth+1)
	}
	return nil
}
