package main

import (
	"fmt"
	"go/token"
	"go/types"
	"strings"

	"golang.org/x/tools/go/ssa"
)

func (c *FnVC) instr(in ssa.Instruction) {
	switch x := in.(type) {
	case *ssa.DebugRef:
		return
	case *ssa.Alloc:
		a := c.bumpAlloc()
		c.setVal(x, fmt.Sprintf("(mkLoc %s PNil)", a))
	case *ssa.FieldAddr:
		c.nilCheck(x.X, in)
		c.setVal(x, fmt.Sprintf("(fld %s %d)", c.v(x.X), x.Field))
	case *ssa.Field:
		st := x.X.Type().Underlying().(*types.Struct)
		si := c.te.structOf(st)
		c.setVal(x, fmt.Sprintf("(%s_f%d %s)", si.name, x.Field, c.v(x.X)))
	case *ssa.IndexAddr:
		c.indexAddr(x)
	case *ssa.Index:
		c.index(x)
	case *ssa.Lookup:
		c.lookup(x)
	case *ssa.UnOp:
		c.unop(x)
	case *ssa.BinOp:
		c.binop(x)
	case *ssa.Store:
		c.nilCheck(x.Addr, in)
		c.store(x.Val.Type(), c.v(x.Addr), c.v(x.Val))
	case *ssa.Convert:
		c.convert(x)
	case *ssa.ChangeType:
		c.setVal(x, c.v(x.X))
	case *ssa.ChangeInterface:
		c.setVal(x, c.v(x.X))
	case *ssa.MakeInterface:
		c.setVal(x, c.mkIface(x.X.Type(), c.v(x.X)))
	case *ssa.TypeAssert:
		c.typeAssert(x)
	case *ssa.Extract:
		tup := c.tuples[x.Tuple]
		if tup == nil || x.Index >= len(tup) {
			c.havocVal(x, "extract from unknown tuple "+x.Tuple.Name())
			return
		}
		c.setVal(x, tup[x.Index])
	case *ssa.Slice:
		c.slice(x)
	case *ssa.Phi:
		// handled at block entry
	case *ssa.Call:
		c.call(x)
	case *ssa.Return:
		var vs []string
		for _, r := range x.Results {
			vs = append(vs, c.v(r))
		}
		c.rets = append(c.rets, retSite{b: in.Block(), vals: vs, heap: copyHeap(c.cur), reach: c.reach[in.Block()]})
	case *ssa.If, *ssa.Jump:
	case *ssa.Panic:
		c.explicitPanic(x)
	case *ssa.MakeSlice:
		c.makeSlice(x)
	case *ssa.MakeMap:
		c.makeMap(x)
	case *ssa.MapUpdate:
		c.mapUpdate(x)
	case *ssa.Range:
		c.rangeInstr(x)
	case *ssa.Next:
		c.next(x)
	case *ssa.MakeClosure:
		// environment: a fresh object holding the bindings is not modelled; the closure
		// is identified by its function id.
		c.setVal(x, fmt.Sprintf("(mkFn %d (mkLoc %s PNil))", c.P.funcID(x.Fn.(*ssa.Function)), c.bumpAlloc()))
	case *ssa.RunDefers:
		c.runDefers(x)
	case *ssa.Defer:
		c.deferInstr(x)
	case *ssa.Go:
		// The spawned function runs outside the model (no effect assumed, none excluded on
		// this goroutine's heap - listed as an assumption). The go statement itself is an
		// event: `at call go assert E` constrains the arguments handed over (receiver first),
		// and the callee's `requires` are checked here in the current state.
		c.havocs = append(c.havocs, "go statement: spawned function runs outside the model "+c.srcAt(x.Pos()))
		c.goEvent(x)
	case *ssa.Send:
		// Sequential reading of a producer: a send hands the value to the consumer and has no
		// effect on this goroutine's heap (what other goroutines do meanwhile is outside the
		// model - listed as an assumption). Contracts can constrain what is sent with
		// `at call send assert E` (arg0 the channel, arg1 the value).
		c.havocs = append(c.havocs, "channel send modelled as an event without heap effect "+c.srcAt(x.Pos()))
		c.callN["send"]++
		c.atAssertsIn(x.Block(), "send", fmt.Sprintf("send#%d", c.callN["send"]), []string{c.v(x.Chan), c.v(x.X)}, []types.Type{x.Chan.Type(), x.X.Type()})
	case *ssa.Select:
		c.havocVal(x, "select "+c.srcAt(x.Pos()))
		c.havocAll("select")
	case *ssa.MakeChan:
		c.setVal(x, fmt.Sprintf("(mkLoc %s PNil)", c.bumpAlloc()))
	case *ssa.SliceToArrayPointer:
		// panics if len(slice) < N
		n := x.Type().(*types.Pointer).Elem().Underlying().(*types.Array).Len()
		s := c.v(x.X)
		c.oblige("slice", fmt.Sprintf("(bvsge (s_len %s) %s)", s, bv64(n)), in.Block(), "slice to array pointer conversion", x.Pos())
		c.setVal(x, fmt.Sprintf("(mkLoc (base (s_arr %s)) (PE (path (s_arr %s)) (s_off %s)))", s, s, s))
		c.havocs = append(c.havocs, "slice-to-array-pointer aliasing approximated")
	case *ssa.MultiConvert:
		c.havocVal(x, "multiconvert")
	default:
		if v, ok := in.(ssa.Value); ok {
			c.havocVal(v, fmt.Sprintf("unsupported instruction %T", in))
		} else {
			c.havocs = append(c.havocs, fmt.Sprintf("unsupported instruction %T", in))
		}
	}
}

func (c *FnVC) explicitPanic(x *ssa.Panic) {
	if c.ct != nil && c.ct.MayPanic {
		return
	}
	goal := "false"
	if c.ct != nil && c.ct.PanicsWhen != nil {
		ev := c.newEval(c.fn, c.paramEnv(), c.entry, nil)
		t, err := ev.boolExpr(c.ct.PanicsWhen.Expr)
		if err != nil {
			c.errorf("%s: panics_when: %v", c.fnName(), err)
		} else {
			goal = t
		}
	}
	c.oblige("panic", goal, x.Block(), "explicit panic reachable "+c.srcAt(x.Pos()), x.Pos())
}

func (c *FnVC) indexAddr(x *ssa.IndexAddr) {
	i := c.toI64(x.Index)
	switch t := x.X.Type().Underlying().(type) {
	case *types.Slice:
		s := c.v(x.X)
		c.oblige("bounds", fmt.Sprintf("(and (bvsle #x0000000000000000 %s) (bvslt %s (s_len %s)))", i, i, s), x.Block(),
			"index in range "+c.srcAt(x.Pos()), x.Pos())
		c.setVal(x, fmt.Sprintf("(elem %s %s)", s, i))
	case *types.Pointer:
		arr := t.Elem().Underlying().(*types.Array)
		c.nilCheck(x.X, x)
		c.oblige("bounds", fmt.Sprintf("(and (bvsle #x0000000000000000 %s) (bvslt %s %s))", i, i, bv64(arr.Len())), x.Block(),
			"array index in range "+c.srcAt(x.Pos()), x.Pos())
		c.setVal(x, fmt.Sprintf("(aelem %s %s)", c.v(x.X), i))
	default:
		c.havocVal(x, "indexaddr on "+x.X.Type().String())
	}
}

func (c *FnVC) index(x *ssa.Index) {
	i := c.toI64(x.Index)
	switch t := x.X.Type().Underlying().(type) {
	case *types.Array:
		c.oblige("bounds", fmt.Sprintf("(and (bvsle #x0000000000000000 %s) (bvslt %s %s))", i, i, bv64(t.Len())), x.Block(),
			"array index in range "+c.srcAt(x.Pos()), x.Pos())
		c.setVal(x, fmt.Sprintf("(select %s %s)", c.v(x.X), i))
	case *types.Basic: // string
		s := c.v(x.X)
		c.oblige("bounds", fmt.Sprintf("(and (bvsle #x0000000000000000 %s) (bvslt %s (str_len %s)))", i, i, s), x.Block(),
			"string index in range "+c.srcAt(x.Pos()), x.Pos())
		c.setVal(x, fmt.Sprintf("(select (str_arr %s) %s)", s, i))
	default:
		c.havocVal(x, "index on "+x.X.Type().String())
	}
}

func (c *FnVC) unop(x *ssa.UnOp) {
	switch x.Op {
	case token.MUL:
		c.nilCheck(x.X, x)
		t := c.load(x.Type(), c.v(x.X))
		n := c.setVal(x, t)
		c.assumeTypeInv(n, x.Type())
	case token.NOT:
		c.setVal(x, not(c.v(x.X)))
	case token.SUB:
		if _, _, ok := c.te.intWidth(x.Type()); ok {
			c.setVal(x, "(bvneg "+c.v(x.X)+")")
		} else {
			c.havocVal(x, "float negation")
		}
	case token.XOR:
		c.setVal(x, "(bvnot "+c.v(x.X)+")")
	case token.ARROW:
		if x.CommaOk {
			c.havocVal(x, "channel receive "+c.srcAt(x.Pos()))
		} else {
			c.havocVal(x, "channel receive "+c.srcAt(x.Pos()))
		}
	default:
		c.havocVal(x, "unop "+x.Op.String())
	}
}

func (c *FnVC) binop(x *ssa.BinOp) {
	t, ok := c.binopTerm(x.Op, x.X.Type(), c.v(x.X), x.Y.Type(), c.v(x.Y), x, x.X, x.Y)
	if !ok {
		c.havocVal(x, "binop "+x.Op.String()+" on "+x.X.Type().String())
		return
	}
	c.setVal(x, t)
}

// binopTerm translates a Go binary operation. in may be nil (contract expressions);
// then no panic obligations are generated.
func (c *FnVC) binopTerm(op token.Token, xt types.Type, a string, yt types.Type, b string, in ssa.Instruction, xv, yv ssa.Value) (string, bool) {
	w, signed, isInt := c.te.intWidth(xt)
	switch op {
	case token.EQL, token.NEQ:
		var eq string
		switch u := xt.Underlying().(type) {
		case *types.Slice:
			// only comparison with nil is legal
			if isNilConst(yv) {
				eq = fmt.Sprintf("(= (s_arr %s) NullLoc)", a)
			} else if isNilConst(xv) {
				eq = fmt.Sprintf("(= (s_arr %s) NullLoc)", b)
			} else {
				eq = fmt.Sprintf("(= %s %s)", a, b)
			}
		case *types.Interface:
			_ = u
			if isNilConst(yv) {
				eq = fmt.Sprintf("(= (i_typ %s) 0)", a)
			} else if isNilConst(xv) {
				eq = fmt.Sprintf("(= (i_typ %s) 0)", b)
			} else {
				eq = fmt.Sprintf("(= %s %s)", a, b)
			}
		case *types.Signature:
			if isNilConst(yv) {
				eq = fmt.Sprintf("(= (fn_id %s) 0)", a)
			} else if isNilConst(xv) {
				eq = fmt.Sprintf("(= (fn_id %s) 0)", b)
			} else {
				eq = fmt.Sprintf("(= %s %s)", a, b)
			}
		case *types.Basic:
			if u.Info()&types.IsFloat != 0 || u.Info()&types.IsComplex != 0 {
				return "", false
			}
			eq = fmt.Sprintf("(= %s %s)", a, b)
		default:
			eq = fmt.Sprintf("(= %s %s)", a, b)
		}
		if op == token.NEQ {
			return not(eq), true
		}
		return eq, true
	}
	if bt, isB := xt.Underlying().(*types.Basic); isB && bt.Info()&types.IsString != 0 {
		switch op {
		case token.ADD:
			return c.strConcat(a, b), true
		}
		return "", false
	}
	if bt, isB := xt.Underlying().(*types.Basic); isB && bt.Info()&types.IsBoolean != 0 {
		switch op {
		case token.LAND, token.AND:
			return and(a, b), true
		case token.LOR, token.OR:
			return or(a, b), true
		}
		return "", false
	}
	if !isInt {
		return "", false
	}
	cmp := func(s, u string) string {
		if signed {
			return fmt.Sprintf("(%s %s %s)", s, a, b)
		}
		return fmt.Sprintf("(%s %s %s)", u, a, b)
	}
	switch op {
	case token.ADD:
		return fmt.Sprintf("(bvadd %s %s)", a, b), true
	case token.SUB:
		return fmt.Sprintf("(bvsub %s %s)", a, b), true
	case token.MUL:
		return fmt.Sprintf("(bvmul %s %s)", a, b), true
	case token.QUO, token.REM:
		if in != nil {
			c.oblige("div", fmt.Sprintf("(not (= %s %s))", b, bv(w, 0)), in.Block(), "division by zero "+c.srcAt(in.Pos()), in.Pos())
		}
		if op == token.QUO {
			return cmp("bvsdiv", "bvudiv"), true
		}
		return cmp("bvsrem", "bvurem"), true
	case token.AND:
		return fmt.Sprintf("(bvand %s %s)", a, b), true
	case token.OR:
		return fmt.Sprintf("(bvor %s %s)", a, b), true
	case token.XOR:
		return fmt.Sprintf("(bvxor %s %s)", a, b), true
	case token.AND_NOT:
		return fmt.Sprintf("(bvand %s (bvnot %s))", a, b), true
	case token.SHL, token.SHR:
		yw, ysigned, yok := c.te.intWidth(yt)
		if !yok {
			return "", false
		}
		if ysigned && in != nil && !isConstVal(yv) {
			c.oblige("shift", fmt.Sprintf("(bvsge %s %s)", b, bv(yw, 0)), in.Block(), "negative shift count "+c.srcAt(in.Pos()), in.Pos())
		}
		// bring the count to width w, saturating
		var cnt string
		switch {
		case yw == w:
			cnt = b
		case yw < w:
			cnt = fmt.Sprintf("((_ zero_extend %d) %s)", w-yw, b)
		default:
			cnt = fmt.Sprintf("(ite (bvuge %s %s) %s ((_ extract %d 0) %s))", b, bv(yw, uint64(w)), bv(w, uint64(w)), w-1, b)
		}
		if op == token.SHL {
			return fmt.Sprintf("(bvshl %s %s)", a, cnt), true
		}
		if signed {
			return fmt.Sprintf("(bvashr %s %s)", a, cnt), true
		}
		return fmt.Sprintf("(bvlshr %s %s)", a, cnt), true
	case token.LSS:
		return cmp("bvslt", "bvult"), true
	case token.LEQ:
		return cmp("bvsle", "bvule"), true
	case token.GTR:
		return cmp("bvsgt", "bvugt"), true
	case token.GEQ:
		return cmp("bvsge", "bvuge"), true
	}
	return "", false
}

func isNilConst(v ssa.Value) bool {
	k, ok := v.(*ssa.Const)
	return ok && k.Value == nil
}
func isConstVal(v ssa.Value) bool {
	_, ok := v.(*ssa.Const)
	return ok
}

func (c *FnVC) strConcat(a, b string) string {
	n := c.freshConst("cat", "Str")
	c.assume(fmt.Sprintf("(= (str_len %s) (bvadd (str_len %s) (str_len %s)))", n, a, b))
	c.assume(fmt.Sprintf("(forall ((i (_ BitVec 64))) (! (= (select (str_arr %s) i) (ite (bvult i (str_len %s)) (select (str_arr %s) i) (ite (bvult i (bvadd (str_len %s) (str_len %s))) (select (str_arr %s) (bvsub i (str_len %s))) #x00))) :pattern ((select (str_arr %s) i))))", n, a, a, a, b, b, a, n))
	return n
}

// substr: the string s[lo:hi] as a fresh constant with pointwise definition.
func (c *FnVC) substr(s, lo, hi string) string {
	n := c.freshConst("substr", "Str")
	c.assume(fmt.Sprintf("(= (str_len %s) (bvsub %s %s))", n, hi, lo))
	c.assume(fmt.Sprintf("(forall ((i (_ BitVec 64))) (! (= (select (str_arr %s) i) (ite (bvult i (bvsub %s %s)) (select (str_arr %s) (bvadd i %s)) #x00)) :pattern ((select (str_arr %s) i))))", n, hi, lo, s, lo, n))
	return n
}

func (c *FnVC) convTerm(from, to types.Type, a string) (string, bool) {
	fw, fsigned, fok := c.te.intWidth(from)
	tw, _, tok := c.te.intWidth(to)
	if fok && tok {
		switch {
		case fw == tw:
			return a, true
		case fw > tw:
			return fmt.Sprintf("((_ extract %d 0) %s)", tw-1, a), true
		case fsigned:
			return fmt.Sprintf("((_ sign_extend %d) %s)", tw-fw, a), true
		default:
			return fmt.Sprintf("((_ zero_extend %d) %s)", tw-fw, a), true
		}
	}
	return "", false
}

func (c *FnVC) convert(x *ssa.Convert) {
	from, to := x.X.Type(), x.Type()
	if t, ok := c.convTerm(from, to, c.v(x.X)); ok {
		c.setVal(x, t)
		return
	}
	fu, tu := from.Underlying(), to.Underlying()
	// string(bytes)
	if fs, ok := fu.(*types.Slice); ok {
		if tb, ok := tu.(*types.Basic); ok && tb.Info()&types.IsString != 0 {
			if eb, ok := fs.Elem().Underlying().(*types.Basic); ok && eb.Kind() == types.Byte {
				s := c.v(x.X)
				c.setVal(x, c.bytesToStr(s, c.H("bv8")))
				return
			}
		}
	}
	// []byte(string)
	if fb, ok := fu.(*types.Basic); ok && fb.Info()&types.IsString != 0 {
		if ts, ok := tu.(*types.Slice); ok {
			if eb, ok := ts.Elem().Underlying().(*types.Basic); ok && eb.Kind() == types.Byte {
				str := c.v(x.X)
				base := c.bumpAlloc()
				sl := fmt.Sprintf("(mkSlice (mkLoc %s PNil) #x0000000000000000 (str_len %s) (str_len %s))", base, str, str)
				n := c.setVal(x, sl)
				old := c.H("bv8")
				h := c.freshConst("H_bv8", compSort(c, "bv8"))
				c.assume(fmt.Sprintf("(forall ((l Loc)) (! (= (select %s l) (ite (inrange l %s #x0000000000000000 (str_len %s)) (select (str_arr %s) (eidx l %s)) (select %s l))) :pattern ((select %s l))))", h, n, str, str, n, old, h))
				c.cur["bv8"] = h
				return
			}
		}
		// string -> string (named)
		if tb, ok := tu.(*types.Basic); ok && tb.Info()&types.IsString != 0 {
			c.setVal(x, c.v(x.X))
			return
		}
	}
	// unsafe pointer / pointer conversions
	if c.te.sortOf(from) == c.te.sortOf(to) && c.te.sortOf(to) != "Float" {
		c.setVal(x, c.v(x.X))
		return
	}
	// int -> string (rune)
	c.havocVal(x, fmt.Sprintf("conversion %s -> %s %s", from, to, c.srcAt(x.Pos())))
}

// bytesToStr: the string holding the current contents of byte slice s.
func (c *FnVC) bytesToStr(s, h8 string) string {
	n := c.freshConst("bstr", "Str")
	c.assume(fmt.Sprintf("(= (str_len %s) (s_len %s))", n, s))
	c.assume(fmt.Sprintf("(forall ((i (_ BitVec 64))) (! (= (select (str_arr %s) i) (ite (bvult i (s_len %s)) (select %s (elem %s i)) #x00)) :pattern ((select (str_arr %s) i))))", n, s, h8, s, n))
	return n
}

func (c *FnVC) slice(x *ssa.Slice) {
	lo := "#x0000000000000000"
	if x.Low != nil {
		lo = c.toI64(x.Low)
	}
	b := x.Block()
	switch t := x.X.Type().Underlying().(type) {
	case *types.Slice:
		s := c.v(x.X)
		hi := fmt.Sprintf("(s_len %s)", s)
		if x.High != nil {
			hi = c.toI64(x.High)
		}
		mx := fmt.Sprintf("(s_cap %s)", s)
		if x.Max != nil {
			mx = c.toI64(x.Max)
			c.oblige("slice", fmt.Sprintf("(and (bvsle %s %s) (bvsle %s (s_cap %s)))", hi, mx, mx, s), b, "slice max in range "+c.srcAt(x.Pos()), x.Pos())
		}
		c.oblige("slice", fmt.Sprintf("(and (bvsle #x0000000000000000 %s) (bvsle %s %s) (bvsle %s (s_cap %s)))", lo, lo, hi, hi, s), b,
			"slice bounds in range "+c.srcAt(x.Pos()), x.Pos())
		c.setVal(x, fmt.Sprintf("(mkSlice (s_arr %s) (bvadd (s_off %s) %s) (bvsub %s %s) (bvsub %s %s))", s, s, lo, hi, lo, mx, lo))
	case *types.Basic: // string
		s := c.v(x.X)
		hi := fmt.Sprintf("(str_len %s)", s)
		if x.High != nil {
			hi = c.toI64(x.High)
		}
		c.oblige("slice", fmt.Sprintf("(and (bvsle #x0000000000000000 %s) (bvsle %s %s) (bvsle %s (str_len %s)))", lo, lo, hi, hi, s), b,
			"string slice bounds in range "+c.srcAt(x.Pos()), x.Pos())
		c.setVal(x, c.substr(s, lo, hi))
	case *types.Pointer:
		arr := t.Elem().Underlying().(*types.Array)
		c.nilCheck(x.X, x)
		p := c.v(x.X)
		n := bv64(arr.Len())
		hi := n
		if x.High != nil {
			hi = c.toI64(x.High)
		}
		mx := n
		if x.Max != nil {
			mx = c.toI64(x.Max)
			c.oblige("slice", fmt.Sprintf("(and (bvsle %s %s) (bvsle %s %s))", hi, mx, mx, n), b, "slice max in range "+c.srcAt(x.Pos()), x.Pos())
		}
		c.oblige("slice", fmt.Sprintf("(and (bvsle #x0000000000000000 %s) (bvsle %s %s) (bvsle %s %s))", lo, lo, hi, hi, n), b,
			"array slice bounds in range "+c.srcAt(x.Pos()), x.Pos())
		c.setVal(x, fmt.Sprintf("(mkSlice %s %s (bvsub %s %s) (bvsub %s %s))", p, lo, hi, lo, mx, lo))
	default:
		c.havocVal(x, "slice of "+x.X.Type().String())
	}
}

func (c *FnVC) makeSlice(x *ssa.MakeSlice) {
	l := c.toI64(x.Len)
	cp := c.toI64(x.Cap)
	b := x.Block()
	// runtime.makeslice panics when len < 0, len > cap or cap*elemsize exceeds maxAlloc (2^48 on amd64)
	esz := int64(1)
	if st, ok := x.Type().Underlying().(*types.Slice); ok {
		if s := types.SizesFor("gc", "amd64").Sizeof(st.Elem()); s > 1 {
			esz = s
		}
	}
	maxCap := (int64(1) << 48) / esz
	c.oblige("make", fmt.Sprintf("(and (bvsle #x0000000000000000 %s) (bvsle %s %s) (bvsle %s %s))", l, l, cp, cp, bv64(maxCap)), b, "make: len/cap in range "+c.srcAt(x.Pos()), x.Pos())
	c.allocBoundCheck(cp, x, "make")
	base := c.bumpAlloc()
	c.setVal(x, fmt.Sprintf("(mkSlice (mkLoc %s PNil) #x0000000000000000 %s %s)", base, l, cp))
}

// allocBoundCheck emits the `alloc <= e` obligation for an allocation of n elements.
func (c *FnVC) allocBoundCheck(n string, in ssa.Instruction, what string) {
	if c.ct == nil || c.ct.AllocBound == nil {
		return
	}
	ev := c.newEval(c.fn, c.paramEnv(), c.entry, nil)
	t, _, err := ev.expr(c.ct.AllocBound.Expr, types.Typ[types.Int])
	if err != nil {
		c.errorf("%s: alloc bound: %v", c.fnName(), err)
		return
	}
	c.oblige("alloc", fmt.Sprintf("(bvsle %s %s)", n, t), in.Block(), what+": allocation size within bound "+c.srcAt(in.Pos()), in.Pos())
}

// ---- interfaces

func (c *FnVC) mkIface(t types.Type, val string) string {
	if _, isI := t.Underlying().(*types.Interface); isI {
		return val
	}
	return fmt.Sprintf("(mkIface %d %s)", c.P.typeID(t), c.box(t, val))
}

func (c *FnVC) box(t types.Type, val string) string {
	so := c.te.sortOf(t)
	b := fmt.Sprintf("(%s %s)", c.te.boxFn(so), val)
	// instance of the injection axiom unbox(box(v)) == v (kept quantifier-free)
	n := c.freshName("boxed")
	c.def(n, "Box", b)
	c.assume(fmt.Sprintf("(= (%s %s) %s)", c.te.unboxFn(so), n, val))
	return n
}
func (c *FnVC) unbox(t types.Type, b string) string {
	return fmt.Sprintf("(%s %s)", c.te.unboxFn(c.te.sortOf(t)), b)
}

func (c *FnVC) typeAssert(x *ssa.TypeAssert) {
	iv := c.v(x.X)
	at := x.AssertedType
	var ok, val string
	if _, isI := at.Underlying().(*types.Interface); isI {
		// Whether a dynamic type satisfies an interface is a fixed (uninterpreted) relation
		// between type ids: two assertions on the same value agree, the types the program
		// names are decided by go/types, and an interface with unexported methods is only
		// satisfied by types of its own package (closed world). nil never satisfies it.
		ifid := c.P.typeID(at)
		c.noteIfaceAssert(at)
		okc := c.freshName("implements")
		if types.Identical(at.Underlying(), x.X.Type().Underlying()) || types.AssignableTo(x.X.Type(), at) {
			c.def(okc, "Bool", fmt.Sprintf("(not (= (i_typ %s) 0))", iv))
		} else {
			c.def(okc, "Bool", fmt.Sprintf("(and (not (= (i_typ %s) 0)) (implements (i_typ %s) %d))", iv, iv, ifid))
			c.closedWorld(at, ifid, iv)
		}
		c.syncImplFacts()
		ok = okc
		val = ite(okc, iv, "NilIface")
	} else {
		ok = fmt.Sprintf("(= (i_typ %s) %d)", iv, c.P.typeID(at))
		c.syncImplFacts()
		z := c.te.zeroOf(at)
		val = c.unbox(at, "(i_val "+iv+")")
		if z != "" {
			val = ite(ok, val, z)
		}
	}
	if x.CommaOk {
		vn := c.freshName("ta_" + sanitize(x.Name()))
		c.def(vn, c.te.sortOf(at), val)
		okn := c.freshName("taok_" + sanitize(x.Name()))
		c.def(okn, "Bool", ok)
		c.tuples[x] = []string{vn, okn}
		c.assumeTypeInv(vn, at)
		return
	}
	c.oblige("typeassert", ok, x.Block(), "type assertion holds "+c.srcAt(x.Pos()), x.Pos())
	n := c.setVal(x, val)
	c.assumeTypeInv(n, at)
}

// ---- defers (static calls only; mutex operations are no-ops)

func (c *FnVC) deferInstr(x *ssa.Defer) {
	// recorded; executed at RunDefers if on every path (approximation: executed
	// at RunDefers guarded by the reach condition of the defer site).
	c.havocs = append(c.havocs, "defer "+x.Call.String()+" "+c.srcAt(x.Pos()))
}

func (c *FnVC) runDefers(x *ssa.RunDefers) {
	// collect defers of this function
	var ds []*ssa.Defer
	for _, b := range c.fn.Blocks {
		for _, in := range b.Instrs {
			if d, ok := in.(*ssa.Defer); ok {
				ds = append(ds, d)
			}
		}
	}
	for i := len(ds) - 1; i >= 0; i-- {
		d := ds[i]
		if f := d.Call.StaticCallee(); f != nil && isSyncNoop(f) {
			continue
		}
		if d.Call.IsInvoke() && isSyncNoopName(d.Call.Method.FullName()) {
			continue
		}
		// unknown deferred call: all state unknown afterwards
		c.havocAll("deferred call " + d.Call.String())
	}
}

func isSyncNoop(f *ssa.Function) bool { return isSyncNoopName(f.String()) }
func isSyncNoopName(n string) bool {
	switch n {
	case "(*sync.Mutex).Lock", "(*sync.Mutex).Unlock", "(*sync.RWMutex).Lock", "(*sync.RWMutex).Unlock",
		"(*sync.RWMutex).RLock", "(*sync.RWMutex).RUnlock", "(sync.Locker).Lock", "(sync.Locker).Unlock":
		return true
	}
	return strings.HasPrefix(n, "(*sync.Once)") && false
}

func (c *FnVC) noteIfaceAssert(at types.Type) {
	for _, t := range c.ifaceAsserted {
		if types.Identical(t, at) {
			return
		}
	}
	c.ifaceAsserted = append(c.ifaceAsserted, at)
}

// syncImplFacts: for every interface this function asserts to and every concrete type the
// program has named so far, state whether the type implements the interface (go/types).
func (c *FnVC) syncImplFacts() {
	if c.implKnown == nil {
		c.implKnown = map[string]bool{}
	}
	for _, it := range c.ifaceAsserted {
		ifid := c.P.typeID(it)
		iface, _ := it.Underlying().(*types.Interface)
		if iface == nil {
			continue
		}
		for i := 0; i < len(c.P.typeByID); i++ {
			t := c.P.typeByID[i]
			if _, isI := t.Underlying().(*types.Interface); isI {
				continue
			}
			k := fmt.Sprintf("%d:%d", i+1, ifid)
			if c.implKnown[k] {
				continue
			}
			c.implKnown[k] = true
			if types.Implements(t, iface) {
				c.assume(fmt.Sprintf("(implements %d %d)", i+1, ifid))
			} else {
				c.assume(fmt.Sprintf("(not (implements %d %d))", i+1, ifid))
			}
		}
	}
}

// closedWorld: an interface type that is itself unexported and has an unexported method can
// only be satisfied by types declared in its own package; instantiate that for value iv.
func (c *FnVC) closedWorld(at types.Type, ifid int, iv string) {
	named, ok := at.(*types.Named)
	if !ok || named.Obj().Exported() || named.Obj().Pkg() == nil {
		return
	}
	iface, _ := at.Underlying().(*types.Interface)
	if iface == nil {
		return
	}
	unexp := false
	for i := 0; i < iface.NumMethods(); i++ {
		if !iface.Method(i).Exported() {
			unexp = true
		}
	}
	if !unexp {
		return
	}
	scope := named.Obj().Pkg().Scope()
	var alts []string
	for _, n := range scope.Names() {
		tn, ok := scope.Lookup(n).(*types.TypeName)
		if !ok || tn.IsAlias() {
			continue
		}
		t := tn.Type()
		if _, isI := t.Underlying().(*types.Interface); isI {
			continue
		}
		if tp, ok := t.(*types.Named); ok && tp.TypeParams().Len() > 0 {
			continue
		}
		for _, cand := range []types.Type{t, types.NewPointer(t)} {
			if types.Implements(cand, iface) {
				alts = append(alts, fmt.Sprintf("(= (i_typ %s) %d)", iv, c.P.typeID(cand)))
			}
		}
	}
	if len(alts) == 0 {
		c.assume(fmt.Sprintf("(not (implements (i_typ %s) %d))", iv, ifid))
		return
	}
	c.assume(fmt.Sprintf("(=> (implements (i_typ %s) %d) (or %s false))", iv, ifid, strings.Join(alts, " ")))
}

func (c *FnVC) goEvent(x *ssa.Go) {
	cc := x.Common()
	var args []string
	var atys []types.Type
	name := "go"
	f := cc.StaticCallee()
	if cc.IsInvoke() {
		args = append(args, c.v(cc.Value))
		atys = append(atys, cc.Value.Type())
		name = "go " + cc.Method.FullName()
	} else if f != nil {
		name = "go " + f.String()
	}
	for _, a := range cc.Args {
		args = append(args, c.v(a))
		atys = append(atys, a.Type())
	}
	c.callN[name]++
	tag := fmt.Sprintf("%s#%d", shortCallee(name), c.callN[name])
	b := x.Block()
	c.atAssertsIn(b, name, tag, args, atys)
	if f == nil {
		return
	}
	ct := c.P.contractFor(f).forCall()
	if ct == nil {
		return
	}
	env := map[string]envVal{}
	for i, p := range f.Params {
		if i < len(args) {
			env[p.Name()] = envVal{args[i], p.Type()}
			env[fmt.Sprintf("arg%d", i)] = envVal{args[i], p.Type()}
		}
	}
	pre := c.newEval(f, env, copyHeap(c.cur), nil)
	for i, r := range ct.Requires {
		for j, cj := range splitConjDeep(r.Expr, 0) {
			t, err := pre.boolExpr(cj)
			if err != nil {
				c.errorf("%s: requires of %s %q: %v", c.fnName(), name, r.Text, err)
				continue
			}
			o := c.obligeNamed("pre", fmt.Sprintf("pre@%s.%d.c%d", tag, i+1, j+1), t, c.reach[b], "precondition of the spawned "+f.String()+": "+exprString(cj)+" "+c.srcAt(x.Pos()), nil)
			o.Pos = x.Pos()
		}
	}
}
