package main

import (
	"bufio"
	"fmt"
	"go/types"
	"os"
	"path/filepath"
	"regexp"
	"sort"
	"strings"

	"golang.org/x/tools/go/packages"
	"golang.org/x/tools/go/ssa"
	"golang.org/x/tools/go/ssa/ssautil"
)

type specFn struct {
	isLemma bool
	name   string
	params []types.Type
	result types.Type
	file   string
}

type Prog struct {
	prog      *ssa.Program
	pkgs      []*packages.Package
	spkgs     map[string]*ssa.Package
	contracts map[string]*Contract
	specs     map[string]*specFn
	specText  map[string]string // file -> text
	funcIDs   map[*ssa.Function]int
	globalIDs map[*ssa.Global]int
	typeIDs   map[string]int
	typeByID  []types.Type // typeByID[id-1]
	allocMemo map[*ssa.Function]int
	verifDir  string
	globalChecked map[string]error
}

func LoadProg(repo string, patterns []string, verifDir string) (*Prog, error) {
	cfg := &packages.Config{Mode: packages.LoadAllSyntax, Dir: repo, BuildFlags: []string{"-tags=verif"}}
	pkgs, err := packages.Load(cfg, patterns...)
	if err != nil {
		return nil, err
	}
	var errs []string
	packages.Visit(pkgs, nil, func(p *packages.Package) {
		for _, e := range p.Errors {
			errs = append(errs, e.Error())
		}
	})
	if len(errs) > 0 {
		return nil, fmt.Errorf("package load errors:\n%s", strings.Join(errs, "\n"))
	}
	prog, spkgs := ssautil.AllPackages(pkgs, ssa.GlobalDebug|ssa.InstantiateGenerics)
	prog.Build()
	P := &Prog{prog: prog, pkgs: pkgs, spkgs: map[string]*ssa.Package{}, funcIDs: map[*ssa.Function]int{}, globalIDs: map[*ssa.Global]int{},
		typeIDs: map[string]int{}, allocMemo: map[*ssa.Function]int{}, specs: map[string]*specFn{}, specText: map[string]string{}, verifDir: verifDir}
	dirs := map[string]string{}
	for i, p := range pkgs {
		if spkgs[i] != nil {
			P.spkgs[p.PkgPath] = spkgs[i]
		}
		if len(p.GoFiles) > 0 {
			dirs[p.PkgPath] = filepath.Dir(p.GoFiles[0])
		}
	}
	// contract files of every loaded repo package (including dependencies inside the repo)
	packages.Visit(pkgs, nil, func(p *packages.Package) {
		if len(p.GoFiles) > 0 && strings.HasPrefix(p.GoFiles[0], repo+"/") {
			dirs[p.PkgPath] = filepath.Dir(p.GoFiles[0])
		}
	})
	cts, err := LoadContracts(repo, dirs, filepath.Join(verifDir, "extern"))
	if err != nil {
		return nil, err
	}
	P.contracts = cts
	if err := P.loadSpecs(filepath.Join(verifDir, "specs")); err != nil {
		return nil, err
	}
	return P, nil
}

var reSpec = regexp.MustCompile(`^;;\s*(spec|lemma)\s+(\w+)\s*\(([^)]*)\)\s*(\w*)\s*$`)

func specType(s string) (types.Type, error) {
	switch s {
	case "int":
		return types.Typ[types.Int], nil
	case "int64":
		return types.Typ[types.Int64], nil
	case "int32":
		return types.Typ[types.Int32], nil
	case "uint64":
		return types.Typ[types.Uint64], nil
	case "uint32":
		return types.Typ[types.Uint32], nil
	case "uint16":
		return types.Typ[types.Uint16], nil
	case "uint8", "byte":
		return types.Typ[types.Uint8], nil
	case "bool":
		return types.Typ[types.Bool], nil
	case "seq":
		return seqT, nil
	case "string":
		return types.Typ[types.String], nil
	case "mathint":
		return mathT, nil
	}
	return nil, fmt.Errorf("unknown spec type %q", s)
}

func (P *Prog) loadSpecs(dir string) error {
	files, _ := filepath.Glob(filepath.Join(dir, "*.smt2"))
	sort.Strings(files)
	for _, f := range files {
		data, err := os.ReadFile(f)
		if err != nil {
			return err
		}
		P.specText[f] = string(data)
		sc := bufio.NewScanner(strings.NewReader(string(data)))
		for sc.Scan() {
			m := reSpec.FindStringSubmatch(strings.TrimSpace(sc.Text()))
			if m == nil {
				continue
			}
			sf := &specFn{name: m[2], file: f, isLemma: m[1] == "lemma"}
			for _, p := range strings.Split(m[3], ",") {
				p = strings.TrimSpace(p)
				if p == "" {
					continue
				}
				fs := strings.Fields(p)
				t, err := specType(fs[len(fs)-1])
				if err != nil {
					return fmt.Errorf("%s: %v", f, err)
				}
				sf.params = append(sf.params, t)
			}
			if sf.isLemma {
				sf.result = boolT
			} else {
				t, err := specType(m[4])
				if err != nil {
					return fmt.Errorf("%s: %v", f, err)
				}
				sf.result = t
			}
			P.specs[sf.name] = sf
		}
	}
	return nil
}

func (P *Prog) funcID(f *ssa.Function) int {
	if id, ok := P.funcIDs[f]; ok {
		return id
	}
	id := len(P.funcIDs) + 1
	P.funcIDs[f] = id
	return id
}

func (P *Prog) globalID(g *ssa.Global) int {
	if id, ok := P.globalIDs[g]; ok {
		return id
	}
	id := len(P.globalIDs) + 1
	P.globalIDs[g] = id
	return id
}

// canonType: a type's name with aliases resolved (golang.org/x/crypto/ed25519.PublicKey is an
// alias of crypto/ed25519.PublicKey: one dynamic type, one id).
func canonType(t types.Type) string {
	t = types.Unalias(t)
	switch u := t.(type) {
	case *types.Pointer:
		return "*" + canonType(u.Elem())
	case *types.Slice:
		return "[]" + canonType(u.Elem())
	case *types.Array:
		return fmt.Sprintf("[%d]%s", u.Len(), canonType(u.Elem()))
	case *types.Map:
		return "map[" + canonType(u.Key()) + "]" + canonType(u.Elem())
	case *types.Chan:
		return "chan " + canonType(u.Elem())
	case *types.Named:
		s := u.Obj().Name()
		if u.Obj().Pkg() != nil {
			s = u.Obj().Pkg().Path() + "." + s
		}
		if ta := u.TypeArgs(); ta != nil && ta.Len() > 0 {
			var as []string
			for i := 0; i < ta.Len(); i++ {
				as = append(as, canonType(ta.At(i)))
			}
			s += "[" + strings.Join(as, ",") + "]"
		}
		return s
	}
	return t.String()
}

func (P *Prog) typeID(t types.Type) int {
	k := canonType(t)
	if id, ok := P.typeIDs[k]; ok {
		return id
	}
	id := len(P.typeIDs) + 1
	P.typeIDs[k] = id
	P.typeByID = append(P.typeByID, t)
	return id
}

func (P *Prog) contractFor(f *ssa.Function) *Contract {
	if f == nil {
		return nil
	}
	if f.Pkg != nil {
		if ct := P.contracts[f.Pkg.Pkg.Path()+"::"+f.RelString(f.Pkg.Pkg)]; ct != nil {
			return ct
		}
	}
	if ct := P.contracts[f.String()]; ct != nil {
		return ct
	}
	return nil
}

// mayAlloc: may calling f allocate objects that outlive the call or change the
// allocation counter visible to the caller? (static, transitive, conservative)
func (P *Prog) mayAlloc(f *ssa.Function) bool {
	if v, ok := P.allocMemo[f]; ok {
		return v != 0 // in progress (2) counts as false: least fixpoint
	}
	if ct := P.contractFor(f); ct != nil {
		if ct.NoAlloc || ct.Pure {
			P.allocMemo[f] = 0
			return false
		}
		if ct.Trusted || ct.MayAlloc {
			P.allocMemo[f] = 1
			return true
		}
	}
	if len(f.Blocks) == 0 {
		P.allocMemo[f] = 1
		return true
	}
	P.allocMemo[f] = 0 // optimistic while in progress
	res := false
	for _, b := range f.Blocks {
		for _, in := range b.Instrs {
			switch x := in.(type) {
			case *ssa.Alloc:
				if x.Heap {
					res = true
				}
			case *ssa.MakeSlice, *ssa.MakeMap, *ssa.MakeChan, *ssa.MakeClosure:
				res = true
			case *ssa.Convert:
				if _, ok := x.Type().Underlying().(*types.Slice); ok {
					res = true
				}
			case *ssa.Call:
				if bi, ok := x.Call.Value.(*ssa.Builtin); ok {
					if bi.Name() == "append" {
						res = true
					}
				} else if x.Call.IsInvoke() {
					if ct := P.contracts[x.Call.Method.FullName()]; ct == nil || !(ct.NoAlloc || ct.Pure) {
						if !isSyncNoopName(x.Call.Method.FullName()) {
							res = true
						}
					}
				} else if g := x.Call.StaticCallee(); g != nil {
					if !isSyncNoop(g) && P.mayAlloc(g) {
						res = true
					}
				} else {
					res = true
				}
			case *ssa.Go, *ssa.Defer:
				res = true
			}
			if res {
				break
			}
		}
		if res {
			break
		}
	}
	if res {
		P.allocMemo[f] = 1
	}
	return res
}

// findFunc resolves a contract key to the SSA function.
func (P *Prog) findFunc(ct *Contract) *ssa.Function {
	sp := P.spkgs[ct.Pkg]
	if sp == nil {
		for _, p := range P.prog.AllPackages() {
			if p.Pkg.Path() == ct.Pkg {
				sp = p
			}
		}
	}
	if sp == nil {
		return nil
	}
	for _, f := range allFuncs(P.prog, sp) {
		if f.RelString(sp.Pkg) == ct.Name {
			return f
		}
	}
	return nil
}

func allFuncs(prog *ssa.Program, sp *ssa.Package) []*ssa.Function {
	var out []*ssa.Function
	seen := map[*ssa.Function]bool{}
	var add func(f *ssa.Function)
	add = func(f *ssa.Function) {
		if f == nil || seen[f] {
			return
		}
		seen[f] = true
		out = append(out, f)
		for _, a := range f.AnonFuncs {
			add(a)
		}
	}
	for _, m := range sp.Members {
		switch x := m.(type) {
		case *ssa.Function:
			add(x)
		case *ssa.Type:
			t := x.Type()
			for _, tt := range []types.Type{t, types.NewPointer(t)} {
				ms := prog.MethodSets.MethodSet(tt)
				for i := 0; i < ms.Len(); i++ {
					f := prog.MethodValue(ms.At(i))
					if f != nil && f.Pkg == sp {
						add(f)
					}
				}
			}
		}
	}
	return out
}

func (c *FnVC) useSpec(sf *specFn) {
	if c.specFiles == nil {
		c.specFiles = map[string]bool{}
	}
	c.specFiles[sf.file] = true
}
