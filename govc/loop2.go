package main

import (
	"go/types"

	"golang.org/x/tools/go/ssa"
)

// phiKeepsArray: every value flowing into header phi `p` along a back edge is derived
// from p itself by re-slicing or appending (so its backing array is p's entry array or
// a later allocation).
func (c *FnVC) phiKeepsArray(li *loopInfo, p *ssa.Phi) bool {
	for i, pred := range li.header.Preds {
		if !(li.blocks[pred] && li.header.Dominates(pred)) {
			continue
		}
		if !derivesFrom(p.Edges[i], p, li, 0) {
			return false
		}
	}
	return true
}

func derivesFrom(v ssa.Value, p *ssa.Phi, li *loopInfo, depth int) bool {
	if depth > 10 {
		return false
	}
	if v == p {
		return true
	}
	switch x := v.(type) {
	case *ssa.Slice:
		if _, ok := x.X.Type().Underlying().(*types.Slice); ok {
			return derivesFrom(x.X, p, li, depth+1)
		}
	case *ssa.ChangeType:
		return derivesFrom(x.X, p, li, depth+1)
	case *ssa.Call:
		if bi, ok := x.Call.Value.(*ssa.Builtin); ok && bi.Name() == "append" {
			return derivesFrom(x.Call.Args[0], p, li, depth+1)
		}
	case *ssa.Phi:
		// inner join of values that all derive from p
		if li.blocks[x.Block()] && x.Block() != li.header {
			for _, e := range x.Edges {
				if !derivesFrom(e, p, li, depth+1) {
					return false
				}
			}
			return true
		}
	}
	return false
}

// phiAppendOnly: the back-edge values of header phi p derive from p by append alone
// (no re-slicing), so the slice never shrinks and in-place appends stay within
// [len, cap) of its loop-entry value.
func (c *FnVC) phiAppendOnly(li *loopInfo, p *ssa.Phi) bool {
	for i, pred := range li.header.Preds {
		if !(li.blocks[pred] && li.header.Dominates(pred)) {
			continue
		}
		if !appendOnly(p.Edges[i], p, li, 0) {
			return false
		}
	}
	return true
}

func appendOnly(v ssa.Value, p *ssa.Phi, li *loopInfo, depth int) bool {
	if depth > 10 {
		return false
	}
	if v == p {
		return true
	}
	switch x := v.(type) {
	case *ssa.ChangeType:
		return appendOnly(x.X, p, li, depth+1)
	case *ssa.Call:
		if bi, ok := x.Call.Value.(*ssa.Builtin); ok && bi.Name() == "append" {
			return appendOnly(x.Call.Args[0], p, li, depth+1)
		}
	case *ssa.Phi:
		if li.blocks[x.Block()] && x.Block() != li.header {
			for _, e := range x.Edges {
				if !appendOnly(e, p, li, depth+1) {
					return false
				}
			}
			return true
		}
	}
	return false
}
