package main

import "go/types"

// listElemPtr: the type *container/list.Element, if the package is loaded.
func (P *Prog) listElemPtr() types.Type {
	for _, sp := range P.prog.AllPackages() {
		if sp.Pkg.Path() == "container/list" {
			if tn, ok := sp.Pkg.Scope().Lookup("Element").(*types.TypeName); ok {
				return types.NewPointer(tn.Type())
			}
		}
	}
	return nil
}
