package main

// SMT-LIB helpers: sorts for Go types, literals, prelude.

import (
	"os"
	"fmt"
	"go/types"
	"sort"
	"strings"
)

const prelude0 = `(set-option :produce-models true)
(set-logic ALL)
(declare-datatypes ((Path 0)) (((PNil) (PF (pf_p Path) (pf_f Int)) (PE (pe_p Path) (pe_i (_ BitVec 64))))))
(declare-datatypes ((Loc 0)) (((mkLoc (base Int) (path Path)))))
(define-fun NullLoc () Loc (mkLoc 0 PNil))
(declare-datatypes ((Slice 0)) (((mkSlice (s_arr Loc) (s_off (_ BitVec 64)) (s_len (_ BitVec 64)) (s_cap (_ BitVec 64))))))
(define-fun NilSlice () Slice (mkSlice NullLoc #x0000000000000000 #x0000000000000000 #x0000000000000000))
(declare-datatypes ((Str 0)) (((mkStr (str_len (_ BitVec 64)) (str_arr (Array (_ BitVec 64) (_ BitVec 8)))))))
(declare-sort Float 0)
(declare-sort Opaque 0)
(declare-sort Box 0)
(declare-const BNone Box)
(declare-datatypes ((Iface 0)) (((mkIface (i_typ Int) (i_val Box)))))
(declare-fun implements (Int Int) Bool)
(define-fun NilIface () Iface (mkIface 0 BNone))
(declare-datatypes ((Fn 0)) (((mkFn (fn_id Int) (fn_env Loc)))))
(define-fun NilFn () Fn (mkFn 0 NullLoc))
(define-fun elem ((s Slice) (i (_ BitVec 64))) Loc (mkLoc (base (s_arr s)) (PE (path (s_arr s)) (bvadd (s_off s) i))))
(define-fun aelem ((p Loc) (i (_ BitVec 64))) Loc (mkLoc (base p) (PE (path p) i)))
(define-fun fld ((p Loc) (f Int)) Loc (mkLoc (base p) (PF (path p) f)))
(define-fun wf ((x Slice)) Bool
  (and (bvsle #x0000000000000000 (s_len x)) (bvsle (s_len x) (s_cap x))
       (bvsle #x0000000000000000 (s_off x)) (bvsle (s_off x) #x0000010000000000)
       (bvsle (s_cap x) #x0000010000000000)
       (bvsle (bvadd (s_off x) (s_cap x)) #x0000010000000000)
       (=> (= (s_arr x) NullLoc) (and (= (s_cap x) #x0000000000000000) (= (s_off x) #x0000000000000000)))
       (=> (= (base (s_arr x)) 0) (= (s_arr x) NullLoc))))
(define-fun okptr ((p Loc)) Bool (=> (= (base p) 0) (= p NullLoc)))
(define-fun wfstr ((x Str)) Bool (and (bvsle #x0000000000000000 (str_len x)) (bvsle (str_len x) #x0000010000000000)))
(define-fun inrange ((l Loc) (s Slice) (lo (_ BitVec 64)) (hi (_ BitVec 64))) Bool
  (and (= (base l) (base (s_arr s))) ((_ is PE) (path l)) (= (pe_p (path l)) (path (s_arr s)))
       (bvsle (bvadd (s_off s) lo) (pe_i (path l))) (bvslt (pe_i (path l)) (bvadd (s_off s) hi))))
(define-fun eidx ((l Loc) (s Slice)) (_ BitVec 64) (bvsub (pe_i (path l)) (s_off s)))
(define-fun zero8arr () (Array (_ BitVec 64) (_ BitVec 8)) ((as const (Array (_ BitVec 64) (_ BitVec 8))) #x00))
`

// heap kinds (leaf sorts)
var kindSort = map[string]string{
	"bv8": "(_ BitVec 8)", "bv16": "(_ BitVec 16)", "bv32": "(_ BitVec 32)", "bv64": "(_ BitVec 64)",
	"bool": "Bool", "loc": "Loc", "slice": "Slice", "str": "Str", "iface": "Iface", "fn": "Fn", "float": "Float",
}
var kindZero = map[string]string{
	"bv8": "#x00", "bv16": "#x0000", "bv32": "#x00000000", "bv64": "#x0000000000000000",
	"bool": "false", "loc": "NullLoc", "slice": "NilSlice", "str": "(mkStr #x0000000000000000 zero8arr)", "iface": "NilIface", "fn": "NilFn",
}
var allKinds = []string{"bv8", "bv16", "bv32", "bv64", "bool", "loc", "slice", "str", "iface", "fn", "float"}

func bv(w int, v uint64) string {
	if w%4 == 0 {
		return fmt.Sprintf("#x%0*x", w/4, v&mask(w))
	}
	return fmt.Sprintf("#b%0*b", w, v&mask(w))
}
func mask(w int) uint64 {
	if w >= 64 {
		return ^uint64(0)
	}
	return (uint64(1) << uint(w)) - 1
}
func bv64(v int64) string { return bv(64, uint64(v)) }

// prelude: with GOVC_XADD=1 the index sum inside elem is an uninterpreted function with a
// defining axiom instead of bvadd (experiment: z3 normalises bvadd sums, which defeats
// syntactic trigger matching on (select H (elem s i))).
var preludeXadd = strings.Replace(prelude0,
	"(define-fun elem ((s Slice) (i (_ BitVec 64))) Loc (mkLoc (base (s_arr s)) (PE (path (s_arr s)) (bvadd (s_off s) i))))",
	"(declare-fun xadd ((_ BitVec 64) (_ BitVec 64)) (_ BitVec 64))\n(assert (forall ((a (_ BitVec 64)) (b (_ BitVec 64))) (! (= (xadd a b) (bvadd a b)) :pattern ((xadd a b)))))\n(define-fun elem ((s Slice) (i (_ BitVec 64))) Loc (mkLoc (base (s_arr s)) (PE (path (s_arr s)) (xadd (s_off s) i))))", 1)

var prelude = func() string {
	if os.Getenv("GOVC_XADD") != "1" {
		return prelude0
	}
	return preludeXadd
}()

// preludeFor: a function whose contract says `uses xadd` gets the uninterpreted index sum
// (with its defining axiom) in all its obligations.
func preludeFor(c *FnVC) string {
	if c != nil && c.ct != nil && c.ct.Uses["xadd"] {
		return preludeXadd
	}
	return prelude
}

// ---- type environment: struct datatypes etc.

type TypeEnv struct {
	structs map[string]*structInfo // key: types.Type string of underlying struct
	decls   []string
	n       int
	maps    map[string]*mapInfo
	ghosts  map[string][]string
	boxes   map[string]bool
	usesLists bool
}

type structInfo struct {
	name   string
	t      *types.Struct
	fields []string // sorts
}

type mapInfo struct {
	id     int
	ksort  string
	vsort  string
	k, v   types.Type
	domH   string // heap name prefix for domain
	valH   string
	vzero  string
}

// applyFn: the uninterpreted function standing for calls of pure function values with the
// given argument and result sorts (`uses purefuncs`, apply(f, args) in contracts).
func (te *TypeEnv) applyFn(argSorts []string, res string) string {
	name := "fnapply_" + sanitize(strings.Join(argSorts, "_")+"__"+res)
	if te.boxes == nil {
		te.boxes = map[string]bool{}
	}
	if !te.boxes["applyfn:"+name] {
		te.boxes["applyfn:"+name] = true
		te.decls = append(te.decls, fmt.Sprintf("(declare-fun %s (Fn %s) %s)", name, strings.Join(argSorts, " "), res))
	}
	return name
}

func newTypeEnv() *TypeEnv {
	return &TypeEnv{structs: map[string]*structInfo{}, maps: map[string]*mapInfo{}}
}

func isNamedOrPtrTo(t types.Type) types.Type { return t }

func (te *TypeEnv) intWidth(t types.Type) (w int, signed bool, ok bool) {
	b, isb := t.Underlying().(*types.Basic)
	if !isb {
		return 0, false, false
	}
	switch b.Kind() {
	case types.Int8:
		return 8, true, true
	case types.Int16:
		return 16, true, true
	case types.Int32:
		return 32, true, true
	case types.Int64, types.Int, types.UntypedInt, types.UntypedRune:
		return 64, true, true
	case types.Uint8:
		return 8, false, true
	case types.Uint16:
		return 16, false, true
	case types.Uint32:
		return 32, false, true
	case types.Uint64, types.Uint, types.Uintptr:
		return 64, false, true
	}
	return 0, false, false
}

// sortOf returns the SMT sort of a Go type as an SSA register value.
func (te *TypeEnv) sortOf(t types.Type) string {
	switch u := t.Underlying().(type) {
	case *types.Basic:
		if w, _, ok := te.intWidth(t); ok {
			return fmt.Sprintf("(_ BitVec %d)", w)
		}
		switch u.Kind() {
		case types.Bool, types.UntypedBool:
			return "Bool"
		case types.String, types.UntypedString:
			return "Str"
		case types.UnsafePointer:
			return "Loc"
		case types.UntypedNil:
			return "Loc"
		}
		return "Float" // floats, complex
	case *types.Pointer, *types.Map, *types.Chan:
		return "Loc"
	case *types.Slice:
		return "Slice"
	case *types.Interface:
		return "Iface"
	case *types.Signature:
		return "Fn"
	case *types.Struct:
		return te.structOf(u).name
	case *types.Array:
		return fmt.Sprintf("(Array (_ BitVec 64) %s)", te.sortOf(u.Elem()))
	case *types.Tuple:
		return "Opaque"
	case *types.TypeParam:
		return "Opaque"
	}
	return "Opaque"
}

func (te *TypeEnv) structOf(s *types.Struct) *structInfo {
	key := s.String()
	if si, ok := te.structs[key]; ok {
		return si
	}
	te.n++
	si := &structInfo{name: fmt.Sprintf("S%d", te.n), t: s}
	te.structs[key] = si
	for i := 0; i < s.NumFields(); i++ {
		si.fields = append(si.fields, te.sortOf(s.Field(i).Type()))
	}
	var b strings.Builder
	fmt.Fprintf(&b, "(declare-datatypes ((%s 0)) (((mk%s", si.name, si.name)
	for i, f := range si.fields {
		fmt.Fprintf(&b, " (%s_f%d %s)", si.name, i, f)
	}
	b.WriteString("))))")
	if s.NumFields() == 0 {
		b.Reset()
		fmt.Fprintf(&b, "(declare-datatypes ((%s 0)) (((mk%s))))", si.name, si.name)
	}
	te.decls = append(te.decls, fmt.Sprintf("; %s = %s", si.name, strings.ReplaceAll(key, "\n", " ")), b.String())
	return si
}

// kindOf returns the heap kind for a leaf type, or "" if the type is not a leaf (struct/array).
func (te *TypeEnv) kindOf(t types.Type) string {
	switch u := t.Underlying().(type) {
	case *types.Basic:
		if w, _, ok := te.intWidth(t); ok {
			return fmt.Sprintf("bv%d", w)
		}
		switch u.Kind() {
		case types.Bool, types.UntypedBool:
			return "bool"
		case types.String, types.UntypedString:
			return "str"
		case types.UnsafePointer, types.UntypedNil:
			return "loc"
		}
		return "float"
	case *types.Pointer, *types.Map, *types.Chan:
		return "loc"
	case *types.Slice:
		return "slice"
	case *types.Interface:
		return "iface"
	case *types.Signature:
		return "fn"
	case *types.Struct, *types.Array:
		return ""
	}
	return "float"
}

// leafKinds collects the heap kinds occurring in values of type t stored in memory.
func (te *TypeEnv) leafKinds(t types.Type, out map[string]bool) {
	te.leafKinds1(t, out, 0)
}
func (te *TypeEnv) leafKinds1(t types.Type, out map[string]bool, depth int) {
	if depth > 12 {
		return
	}
	switch u := t.Underlying().(type) {
	case *types.Struct:
		for i := 0; i < u.NumFields(); i++ {
			te.leafKinds1(u.Field(i).Type(), out, depth+1)
		}
	case *types.Array:
		te.leafKinds1(u.Elem(), out, depth+1)
	default:
		out[te.kindOf(t)] = true
	}
}

// zeroOf returns the zero value term of a Go type.
func (te *TypeEnv) zeroOf(t types.Type) string {
	switch u := t.Underlying().(type) {
	case *types.Struct:
		si := te.structOf(u)
		if u.NumFields() == 0 {
			return "mk" + si.name
		}
		var parts []string
		for i := 0; i < u.NumFields(); i++ {
			parts = append(parts, te.zeroOf(u.Field(i).Type()))
		}
		return fmt.Sprintf("(mk%s %s)", si.name, strings.Join(parts, " "))
	case *types.Array:
		return fmt.Sprintf("((as const %s) %s)", te.sortOf(t), te.zeroOf(u.Elem()))
	}
	k := te.kindOf(t)
	if z, ok := kindZero[k]; ok {
		return z
	}
	return "" // float/opaque: no zero literal; caller must havoc
}

func sortedKeys(m map[string]bool) []string {
	var ks []string
	for k := range m {
		ks = append(ks, k)
	}
	sort.Strings(ks)
	return ks
}

// strLit builds a Str literal.
func strLit(s string) string {
	arr := "zero8arr"
	for i := 0; i < len(s); i++ {
		arr = fmt.Sprintf("(store %s %s %s)", arr, bv64(int64(i)), bv(8, uint64(s[i])))
	}
	return fmt.Sprintf("(mkStr %s %s)", bv64(int64(len(s))), arr)
}

func and(ts ...string) string {
	var xs []string
	for _, t := range ts {
		if t == "true" || t == "" {
			continue
		}
		xs = append(xs, t)
	}
	if len(xs) == 0 {
		return "true"
	}
	if len(xs) == 1 {
		return xs[0]
	}
	return "(and " + strings.Join(xs, " ") + ")"
}
func or(ts ...string) string {
	var xs []string
	for _, t := range ts {
		if t == "false" || t == "" {
			continue
		}
		if t == "true" {
			return "true"
		}
		xs = append(xs, t)
	}
	if len(xs) == 0 {
		return "false"
	}
	if len(xs) == 1 {
		return xs[0]
	}
	return "(or " + strings.Join(xs, " ") + ")"
}
func not(t string) string {
	if t == "true" {
		return "false"
	}
	if t == "false" {
		return "true"
	}
	return "(not " + t + ")"
}
func imp(a, b string) string {
	if a == "true" {
		return b
	}
	return "(=> " + a + " " + b + ")"
}
func ite(c, a, b string) string {
	if c == "true" {
		return a
	}
	if c == "false" {
		return b
	}
	if a == b {
		return a
	}
	return "(ite " + c + " " + a + " " + b + ")"
}
