package main

import (
	"encoding/json"
	"flag"
	"fmt"
	"os"
	"os/exec"
)

// govc replay -file <replay.json>: show a stored replay and re-run its test on /repo.
func cmdReplay(args []string) {
	fs := flag.NewFlagSet("replay", flag.ExitOnError)
	file := fs.String("file", "", "replay file written by a check")
	_ = fs.String("verif", "/verif", "")
	fs.Parse(args)
	data, err := os.ReadFile(*file)
	if err != nil {
		fmt.Fprintln(os.Stderr, err)
		os.Exit(2)
	}
	var r map[string]any
	if err := json.Unmarshal(data, &r); err != nil {
		fmt.Fprintln(os.Stderr, err)
		os.Exit(2)
	}
	for _, k := range []string{"property", "obligation", "what", "verdict", "source", "input", "predicted_output", "observed_output", "observed_panic", "replay_note", "replay_skipped", "reason"} {
		if v, ok := r[k]; ok {
			j, _ := json.Marshal(v)
			fmt.Printf("%-18s %s\n", k+":", j)
		}
	}
	cmdline, _ := r["replay_cmd"].(string)
	if cmdline == "" {
		fmt.Println("no executable replay stored for this obligation (see smt_file for the solver query)")
		os.Exit(1)
	}
	fmt.Println("re-running:", cmdline)
	c := exec.Command("sh", "-c", cmdline)
	c.Env = append(os.Environ(), "GOFLAGS=-mod=mod", "GOPROXY=off", "GOSUMDB=off", "GOTOOLCHAIN=local", "PATH=/opt/veriftools/go1.26.8/bin:"+os.Getenv("PATH"))
	out, _ := c.CombinedOutput()
	fmt.Print(string(out))
	os.Exit(1)
}
