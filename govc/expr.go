package main

// Contract expression evaluation: Go expression syntax + spec builtins -> SMT terms.

import (
	"bytes"
	"fmt"
	"go/ast"
	"go/constant"
	"go/printer"
	"go/token"
	"go/types"
	"strconv"
	"strings"

	"golang.org/x/tools/go/ssa"
)

type envVal struct {
	term string
	typ  types.Type
}

var (
	seqT   = types.NewNamed(types.NewTypeName(token.NoPos, nil, "seq", nil), types.NewStruct(nil, nil), nil)
	intT   = types.Typ[types.Int]
	boolT  = types.Typ[types.Bool]
	mathT  = types.NewNamed(types.NewTypeName(token.NoPos, nil, "mathint", nil), types.NewStruct(nil, nil), nil)
	locT   = types.NewNamed(types.NewTypeName(token.NoPos, nil, "loc", nil), types.NewStruct(nil, nil), nil)
	byteT  = types.Typ[types.Uint8]
)

// Byte sequences ("seq") are passed around as encoded pseudo-terms: either the bytes of
// a slice in a byte heap ("SEQH|heap|slice") or a plain SMT array ("SEQA|array").
func seqH(h, sl string) string { return "SEQH|" + h + "|" + sl }
func seqA(a string) string     { return "SEQA|" + a }
func seqParts(t string) (heap bool, a, b string) {
	ps := strings.SplitN(t, "|", 3)
	if len(ps) >= 3 && ps[0] == "SEQH" {
		return true, ps[1], ps[2]
	}
	if len(ps) >= 2 && ps[0] == "SEQA" {
		return false, ps[1], ""
	}
	return false, t, ""
}
func seqAt(t, i string) string {
	heap, a, b := seqParts(t)
	if heap {
		return fmt.Sprintf("(select %s (elem %s %s))", a, b, i)
	}
	return fmt.Sprintf("(select %s %s)", a, i)
}

type evalCtx struct {
	c     *FnVC
	pkg   *types.Package
	env   map[string]envVal
	heap  HeapState
	old   *evalCtx
	bound map[string]envVal
	qn    *int
	externCallee bool // evaluating clauses of an assumed (extern) callee contract
	loopEntry    *evalCtx // loop invariants: the state on loop entry, for atentry(e)
}

func (c *FnVC) newEval(fn *ssa.Function, env map[string]envVal, heap HeapState, old *evalCtx) *evalCtx {
	var pkg *types.Package
	if fn != nil && fn.Pkg != nil {
		pkg = fn.Pkg.Pkg
	}
	n := 0
	return &evalCtx{c: c, pkg: pkg, env: env, heap: heap, old: old, bound: map[string]envVal{}, qn: &n}
}

func (ev *evalCtx) withHeap(h HeapState) *evalCtx {
	n := *ev
	n.heap = h
	return &n
}

func (ev *evalCtx) H(k string) string { return ev.c.hOf(ev.heap, k) }

func exprString(e ast.Expr) string {
	var b bytes.Buffer
	printer.Fprint(&b, token.NewFileSet(), e)
	return b.String()
}

// splitConj splits e at top-level && into conjuncts.
func splitConj(e ast.Expr) []ast.Expr {
	switch x := e.(type) {
	case *ast.ParenExpr:
		return splitConj(x.X)
	case *ast.BinaryExpr:
		if x.Op == token.LAND {
			return append(splitConj(x.X), splitConj(x.Y)...)
		}
	case *ast.CallExpr:
		// imp(a, b && c)  ==>  imp(a, b), imp(a, c)
		if id, ok := x.Fun.(*ast.Ident); ok && id.Name == "imp" && len(x.Args) == 2 {
			rs := splitConj(x.Args[1])
			if len(rs) > 1 {
				var out []ast.Expr
				for _, r := range rs {
					out = append(out, &ast.CallExpr{Fun: x.Fun, Args: []ast.Expr{x.Args[0], r}})
				}
				return out
			}
		}
		// forall(i, lo, hi, a && b)  ==>  forall(i, lo, hi, a), forall(i, lo, hi, b)
		// (an optional trailing trigger argument - forall's 5th, forallv's 4th - is kept)
		if id, ok := x.Fun.(*ast.Ident); ok && (id.Name == "forall" && (len(x.Args) == 4 || len(x.Args) == 5) || id.Name == "forallv" && (len(x.Args) == 3 || len(x.Args) == 4)) {
			bodyIx := 3
			if id.Name == "forallv" {
				bodyIx = 2
			}
			rs := splitConj(x.Args[bodyIx])
			if len(rs) > 1 {
				var out []ast.Expr
				for _, r := range rs {
					args := append(append([]ast.Expr{}, x.Args[:bodyIx]...), r)
					args = append(args, x.Args[bodyIx+1:]...)
					out = append(out, &ast.CallExpr{Fun: x.Fun, Args: args})
				}
				return out
			}
		}
	}
	return []ast.Expr{e}
}

func (ev *evalCtx) boolExpr(e ast.Expr) (string, error) {
	t, ty, err := ev.expr(e, boolT)
	if err != nil {
		return "", err
	}
	if ev.c.te.sortOf(ty) != "Bool" {
		return "", fmt.Errorf("expression %s is not boolean (%s)", exprString(e), ty)
	}
	return t, nil
}

// constOf evaluates compile-time constant expressions (literals, named constants, arithmetic).
func (ev *evalCtx) constOf(e ast.Expr) (constant.Value, types.Type, bool) {
	switch x := e.(type) {
	case *ast.ParenExpr:
		return ev.constOf(x.X)
	case *ast.BasicLit:
		v := constant.MakeFromLiteral(x.Value, x.Kind, 0)
		if v.Kind() == constant.Unknown {
			return nil, nil, false
		}
		return v, nil, true
	case *ast.Ident:
		if _, ok := ev.bound[x.Name]; ok {
			return nil, nil, false
		}
		if _, ok := ev.env[x.Name]; ok {
			return nil, nil, false
		}
		if ev.pkg != nil {
			if o, ok := ev.pkg.Scope().Lookup(x.Name).(*types.Const); ok {
				return o.Val(), constType(o.Type()), true
			}
		}
		if o, ok := types.Universe.Lookup(x.Name).(*types.Const); ok && x.Name != "true" && x.Name != "false" {
			return o.Val(), nil, true
		}
	case *ast.SelectorExpr:
		if id, ok := x.X.(*ast.Ident); ok {
			if o, ok := ev.lookupQualified(id.Name, x.Sel.Name).(*types.Const); ok {
				return o.Val(), constType(o.Type()), true
			}
		}
	case *ast.UnaryExpr:
		v, t, ok := ev.constOf(x.X)
		if ok && (x.Op == token.SUB || x.Op == token.XOR || x.Op == token.ADD) && v.Kind() == constant.Int && t == nil {
			return constant.UnaryOp(x.Op, v, 0), t, true
		}
	case *ast.BinaryExpr:
		a, ta, ok1 := ev.constOf(x.X)
		b, tb, ok2 := ev.constOf(x.Y)
		if ok1 && ok2 && a.Kind() == constant.Int && b.Kind() == constant.Int {
			t := ta
			if t == nil {
				t = tb
			}
			switch x.Op {
			case token.ADD, token.SUB, token.MUL, token.AND, token.OR, token.XOR:
				return constant.BinaryOp(a, x.Op, b), t, true
			case token.QUO:
				if constant.Sign(b) != 0 {
					return constant.BinaryOp(a, token.QUO_ASSIGN, b), t, true
				}
			case token.SHL, token.SHR:
				if s, ok := constant.Uint64Val(b); ok && s < 200 {
					return constant.Shift(a, x.Op, uint(s)), ta, true
				}
			}
		}
	}
	return nil, nil, false
}

func constType(t types.Type) types.Type {
	if b, ok := t.(*types.Basic); ok && b.Info()&types.IsUntyped != 0 {
		return nil
	}
	return t
}

// importsNamed returns the candidate packages a qualifier may denote: imports of the
// contract's package (by package name or by an alias spelled like the path suffix with
// '_' for '/'), then any loaded package of that name.
func (ev *evalCtx) importsNamed(name string) []*types.Package {
	var out []*types.Package
	match := func(p *types.Package) bool {
		if p.Name() == name {
			return true
		}
		parts := strings.Split(p.Path(), "/")
		for i := range parts {
			if strings.Join(parts[i:], "_") == name {
				return true
			}
		}
		return false
	}
	if ev.pkg != nil {
		for _, p := range ev.pkg.Imports() {
			if match(p) {
				out = append(out, p)
			}
		}
	}
	for _, sp := range ev.c.P.prog.AllPackages() {
		if match(sp.Pkg) {
			dup := false
			for _, o := range out {
				if o == sp.Pkg {
					dup = true
				}
			}
			if !dup {
				out = append(out, sp.Pkg)
			}
		}
	}
	return out
}

// deadAntecedent: some top-level conjunct of e is typeis(_, T) with T a qualified type name
// whose package is not loaded.
func (ev *evalCtx) deadAntecedent(e ast.Expr) bool {
	for _, cj := range splitConj(e) {
		call, ok := cj.(*ast.CallExpr)
		if !ok || len(call.Args) != 2 {
			continue
		}
		if id, ok := call.Fun.(*ast.Ident); !ok || id.Name != "typeis" {
			continue
		}
		t := call.Args[1]
		for {
			if st, ok := t.(*ast.StarExpr); ok {
				t = st.X
				continue
			}
			if pe, ok := t.(*ast.ParenExpr); ok {
				t = pe.X
				continue
			}
			break
		}
		sel, ok := t.(*ast.SelectorExpr)
		if !ok {
			continue
		}
		pid, ok := sel.X.(*ast.Ident)
		if !ok {
			continue
		}
		if len(ev.importsNamed(pid.Name)) == 0 {
			return true
		}
	}
	return false
}

func (ev *evalCtx) lookupQualified(pkgName, name string) types.Object {
	for _, p := range ev.importsNamed(pkgName) {
		if o := p.Scope().Lookup(name); o != nil {
			return o
		}
	}
	return nil
}

func (ev *evalCtx) constTerm(v constant.Value, t types.Type, want types.Type) (string, types.Type, error) {
	if t == nil {
		t = want
	}
	switch v.Kind() {
	case constant.Int:
		if t == nil {
			t = intT
		}
		if t == mathT {
			return v.ExactString(), mathT, nil
		}
		w, _, ok := ev.c.te.intWidth(t)
		if !ok {
			return "", nil, fmt.Errorf("integer constant %s used as %s", v, t)
		}
		if i, exact := constant.Int64Val(v); exact {
			return bv(w, uint64(i)), t, nil
		}
		if u, exact := constant.Uint64Val(v); exact {
			return bv(w, u), t, nil
		}
		return "", nil, fmt.Errorf("constant %s out of range", v)
	case constant.Bool:
		if constant.BoolVal(v) {
			return "true", boolT, nil
		}
		return "false", boolT, nil
	case constant.String:
		if t == nil || ev.c.te.sortOf(t) != "Str" {
			t = types.Typ[types.String]
		}
		return strLit(constant.StringVal(v)), t, nil
	}
	return "", nil, fmt.Errorf("unsupported constant %s", v)
}

// expr translates e. want is a hint for untyped constants (may be nil).
func (ev *evalCtx) expr(e ast.Expr, want types.Type) (string, types.Type, error) {
	if v, t, ok := ev.constOf(e); ok {
		return ev.constTerm(v, t, want)
	}
	switch x := e.(type) {
	case *ast.ParenExpr:
		return ev.expr(x.X, want)
	case *ast.Ident:
		return ev.ident(x)
	case *ast.StarExpr:
		p, pt, err := ev.expr(x.X, nil)
		if err != nil {
			return "", nil, err
		}
		ptr, ok := pt.Underlying().(*types.Pointer)
		if !ok {
			return "", nil, fmt.Errorf("dereference of non-pointer %s", exprString(x.X))
		}
		return ev.load(ptr.Elem(), p), ptr.Elem(), nil
	case *ast.UnaryExpr:
		return ev.unary(x, want)
	case *ast.BinaryExpr:
		return ev.binary(x, want)
	case *ast.CallExpr:
		return ev.call(x, want)
	case *ast.SelectorExpr:
		return ev.selector(x)
	case *ast.IndexExpr:
		return ev.index(x)
	case *ast.SliceExpr:
		return ev.sliceExpr(x)
	}
	return "", nil, fmt.Errorf("unsupported expression %s (%T)", exprString(e), e)
}

func (ev *evalCtx) load(t types.Type, loc string) string {
	saved := ev.c.cur
	ev.c.cur = ev.heap
	defer func() { ev.c.cur = saved }()
	v := ev.c.load(t, loc)
	// Go's type-safety invariants hold for every value in a reachable heap. They are
	// asserted for closed terms only (no quantifier-bound variables).
	if len(ev.bound) == 0 {
		switch t.Underlying().(type) {
		case *types.Slice, *types.Pointer, *types.Map:
			key := v + "@" + ev.c.hOf(ev.heap, "alloc")
			if !ev.c.invSeen[key] {
				ev.c.invSeen[key] = true
				ev.c.assumeTypeInv(v, t)
			}
		}
	}
	return v
}

func (ev *evalCtx) ident(x *ast.Ident) (string, types.Type, error) {
	switch x.Name {
	case "true":
		return "true", boolT, nil
	case "false":
		return "false", boolT, nil
	}
	if v, ok := ev.bound[x.Name]; ok {
		return v.term, v.typ, nil
	}
	if v, ok := ev.env[x.Name]; ok {
		return v.term, v.typ, nil
	}
	if ev.pkg != nil {
		if o, ok := ev.pkg.Scope().Lookup(x.Name).(*types.Var); ok {
			return ev.globalVar(ev.pkg, o)
		}
	}
	return "", nil, fmt.Errorf("unknown identifier %q", x.Name)
}

func (ev *evalCtx) globalVar(pkg *types.Package, o *types.Var) (string, types.Type, error) {
	sp := ev.c.P.prog.Package(pkg)
	if sp == nil {
		return "", nil, fmt.Errorf("package %s not loaded", pkg.Path())
	}
	g, ok := sp.Members[o.Name()].(*ssa.Global)
	if !ok {
		return "", nil, fmt.Errorf("no global %s", o.Name())
	}
	loc := ev.c.globalLoc(g)
	return ev.load(o.Type(), loc), o.Type(), nil
}

func (ev *evalCtx) unary(x *ast.UnaryExpr, want types.Type) (string, types.Type, error) {
	if x.Op == token.AND {
		l, t, err := ev.addr(x.X)
		if err != nil {
			return "", nil, err
		}
		return l, types.NewPointer(t), nil
	}
	a, t, err := ev.expr(x.X, want)
	if err != nil {
		return "", nil, err
	}
	switch x.Op {
	case token.NOT:
		return not(a), boolT, nil
	case token.SUB:
		if t == mathT {
			return "(- " + a + ")", t, nil
		}
		return "(bvneg " + a + ")", t, nil
	case token.XOR:
		return "(bvnot " + a + ")", t, nil
	case token.ADD:
		return a, t, nil
	}
	return "", nil, fmt.Errorf("unsupported unary %s", x.Op)
}

func (ev *evalCtx) binary(x *ast.BinaryExpr, want types.Type) (string, types.Type, error) {
	switch x.Op {
	case token.LAND, token.LOR:
		a, err := ev.boolExpr(x.X)
		if err != nil {
			return "", nil, err
		}
		b, err := ev.boolExpr(x.Y)
		if err != nil {
			return "", nil, err
		}
		if x.Op == token.LAND {
			return and(a, b), boolT, nil
		}
		return or(a, b), boolT, nil
	}
	isCmp := x.Op == token.EQL || x.Op == token.NEQ || x.Op == token.LSS || x.Op == token.LEQ || x.Op == token.GTR || x.Op == token.GEQ
	isShift := x.Op == token.SHL || x.Op == token.SHR
	hint := want
	if isCmp {
		hint = nil
	}
	// nil comparisons
	if isCmp && (isNilIdent(x.X) || isNilIdent(x.Y)) {
		other := x.X
		if isNilIdent(x.X) {
			other = x.Y
		}
		a, t, err := ev.expr(other, nil)
		if err != nil {
			return "", nil, err
		}
		var eq string
		switch ev.c.te.sortOf(t) {
		case "Slice":
			eq = fmt.Sprintf("(= (s_arr %s) NullLoc)", a)
		case "Loc":
			eq = fmt.Sprintf("(= %s NullLoc)", a)
		case "Iface":
			eq = fmt.Sprintf("(= (i_typ %s) 0)", a)
		case "Fn":
			eq = fmt.Sprintf("(= (fn_id %s) 0)", a)
		default:
			return "", nil, fmt.Errorf("comparison of %s with nil", t)
		}
		if x.Op == token.NEQ {
			return not(eq), boolT, nil
		}
		return eq, boolT, nil
	}
	var a, b string
	var ta, tb types.Type
	var err error
	_, _, lconst := ev.constOf(x.X)
	if isShift {
		a, ta, err = ev.expr(x.X, hint)
		if err != nil {
			return "", nil, err
		}
		b, tb, err = ev.expr(x.Y, types.Typ[types.Uint])
		if err != nil {
			return "", nil, err
		}
	} else if lconst {
		b, tb, err = ev.expr(x.Y, hint)
		if err != nil {
			return "", nil, err
		}
		a, ta, err = ev.expr(x.X, tb)
		if err != nil {
			return "", nil, err
		}
	} else {
		a, ta, err = ev.expr(x.X, hint)
		if err != nil {
			return "", nil, err
		}
		b, tb, err = ev.expr(x.Y, ta)
		if err != nil {
			return "", nil, err
		}
	}
	if ta == mathT || tb == mathT {
		return ev.mathBinary(x.Op, a, ta, b, tb)
	}
	if !isShift && ev.c.te.sortOf(ta) != ev.c.te.sortOf(tb) {
		return "", nil, fmt.Errorf("type mismatch in %s: %s vs %s", exprString(x), ta, tb)
	}
	if !isShift {
		_, sa, oka := ev.c.te.intWidth(ta)
		_, sb, okb := ev.c.te.intWidth(tb)
		if oka && okb && sa != sb {
			return "", nil, fmt.Errorf("signedness mismatch in %s: %s vs %s", exprString(x), ta, tb)
		}
	}
	if (x.Op == token.EQL || x.Op == token.NEQ) && ev.c.te.sortOf(ta) == "Slice" {
		return "", nil, fmt.Errorf("slices compared with == in %s; use same() or eq()", exprString(x))
	}
	t, ok := ev.c.binopTerm(x.Op, ta, a, tb, b, nil, nil, nil)
	if !ok {
		return "", nil, fmt.Errorf("unsupported operation %s on %s", x.Op, ta)
	}
	if isCmp {
		return t, boolT, nil
	}
	return t, ta, nil
}

func (ev *evalCtx) mathBinary(op token.Token, a string, ta types.Type, b string, tb types.Type) (string, types.Type, error) {
	a = ev.toMath(a, ta)
	b = ev.toMath(b, tb)
	m := map[token.Token]string{token.ADD: "+", token.SUB: "-", token.MUL: "*", token.LSS: "<", token.LEQ: "<=", token.GTR: ">", token.GEQ: ">=", token.EQL: "="}
	if op == token.NEQ {
		return fmt.Sprintf("(not (= %s %s))", a, b), boolT, nil
	}
	s, ok := m[op]
	if !ok {
		return "", nil, fmt.Errorf("unsupported mathematical operation %s", op)
	}
	r := fmt.Sprintf("(%s %s %s)", s, a, b)
	switch op {
	case token.ADD, token.SUB, token.MUL:
		return r, mathT, nil
	}
	return r, boolT, nil
}

func (ev *evalCtx) toMath(a string, t types.Type) string {
	if t == mathT {
		return a
	}
	w, signed, ok := ev.c.te.intWidth(t)
	if !ok {
		return a
	}
	if signed {
		return fmt.Sprintf("(ite (bvslt %s %s) (- (bv2nat %s) %s) (bv2nat %s))", a, bv(w, 0), a, pow2(w), a)
	}
	return "(bv2nat " + a + ")"
}

func pow2(w int) string {
	v := constant.Shift(constant.MakeInt64(1), token.SHL, uint(w))
	return v.ExactString()
}

func isNilIdent(e ast.Expr) bool {
	id, ok := e.(*ast.Ident)
	return ok && id.Name == "nil"
}

func (ev *evalCtx) selector(x *ast.SelectorExpr) (string, types.Type, error) {
	// package-qualified variable
	if id, ok := x.X.(*ast.Ident); ok {
		if _, isVar := ev.env[id.Name]; !isVar {
			if _, isB := ev.bound[id.Name]; !isB {
				if ps := ev.importsNamed(id.Name); len(ps) > 0 {
					if o, ok := ev.lookupQualified(id.Name, x.Sel.Name).(*types.Var); ok {
						return ev.globalVar(o.Pkg(), o)
					}
					return "", nil, fmt.Errorf("unknown %s.%s", id.Name, x.Sel.Name)
				}
			}
		}
	}
	a, t, err := ev.expr(x.X, nil)
	if err != nil {
		return "", nil, err
	}
	return ev.fieldOf(a, t, x.Sel.Name)
}

// fieldOf selects field name from value a of type t (struct value or pointer to struct).
func (ev *evalCtx) fieldOf(a string, t types.Type, name string) (string, types.Type, error) {
	obj, path, _ := types.LookupFieldOrMethod(t, true, ev.pkgOrNil(), name)
	fv, ok := obj.(*types.Var)
	if !ok || !fv.IsField() {
		// try with the defining package of the type (unexported fields of other packages)
		if n := namedOf(t); n != nil && n.Obj().Pkg() != nil {
			obj, path, _ = types.LookupFieldOrMethod(t, true, n.Obj().Pkg(), name)
			fv, ok = obj.(*types.Var)
		}
		if !ok || fv == nil || !fv.IsField() {
			return "", nil, fmt.Errorf("no field %s in %s", name, t)
		}
	}
	cur, ct := a, t
	for _, idx := range path {
		if p, isP := ct.Underlying().(*types.Pointer); isP {
			st := p.Elem().Underlying().(*types.Struct)
			ft := st.Field(idx).Type()
			loc := fmt.Sprintf("(fld %s %d)", cur, idx)
			cur, ct = ev.load(ft, loc), ft
			continue
		}
		st, isS := ct.Underlying().(*types.Struct)
		if !isS {
			return "", nil, fmt.Errorf("field selection on %s", ct)
		}
		si := ev.c.te.structOf(st)
		cur, ct = fmt.Sprintf("(%s_f%d %s)", si.name, idx, cur), st.Field(idx).Type()
	}
	return cur, ct, nil
}

func namedOf(t types.Type) *types.Named {
	if p, ok := t.Underlying().(*types.Pointer); ok {
		t = p.Elem()
	}
	if p, ok := t.(*types.Pointer); ok {
		t = p.Elem()
	}
	n, _ := t.(*types.Named)
	return n
}

func (ev *evalCtx) pkgOrNil() *types.Package { return ev.pkg }

// addr computes the location of an lvalue expression.
func (ev *evalCtx) addr(e ast.Expr) (string, types.Type, error) {
	switch x := e.(type) {
	case *ast.ParenExpr:
		return ev.addr(x.X)
	case *ast.Ident:
		// an address-taken local: the environment records its location under "&name"
		if _, bound := ev.bound[x.Name]; !bound {
			if a, ok := ev.env["&"+x.Name]; ok {
				if pt, ok := a.typ.Underlying().(*types.Pointer); ok {
					return a.term, pt.Elem(), nil
				}
			}
		}
	case *ast.StarExpr:
		p, pt, err := ev.expr(x.X, nil)
		if err != nil {
			return "", nil, err
		}
		ptr, ok := pt.Underlying().(*types.Pointer)
		if !ok {
			return "", nil, fmt.Errorf("dereference of non-pointer %s", exprString(x.X))
		}
		return p, ptr.Elem(), nil
	case *ast.SelectorExpr:
		// pointer-based field
		a, t, err := ev.expr(x.X, nil)
		var loc string
		var st types.Type
		if err == nil {
			if p, ok := t.Underlying().(*types.Pointer); ok {
				loc, st = a, p.Elem()
			}
		}
		if loc == "" {
			l, lt, err2 := ev.addr(x.X)
			if err2 != nil {
				if err != nil {
					return "", nil, err
				}
				return "", nil, err2
			}
			loc, st = l, lt
		}
		obj, path, _ := types.LookupFieldOrMethod(st, true, ev.pkg, x.Sel.Name)
		fv, ok := obj.(*types.Var)
		if (!ok || !fv.IsField()) && namedOf(st) != nil && namedOf(st).Obj().Pkg() != nil {
			obj, path, _ = types.LookupFieldOrMethod(st, true, namedOf(st).Obj().Pkg(), x.Sel.Name)
			fv, ok = obj.(*types.Var)
		}
		if !ok || fv == nil || !fv.IsField() {
			return "", nil, fmt.Errorf("no field %s in %s", x.Sel.Name, st)
		}
		ct := st
		for _, idx := range path {
			if p, isP := ct.Underlying().(*types.Pointer); isP {
				// embedded pointer: load it
				loc = ev.load(ct, loc)
				ct = p.Elem()
			}
			s := ct.Underlying().(*types.Struct)
			loc = fmt.Sprintf("(fld %s %d)", loc, idx)
			ct = s.Field(idx).Type()
		}
		return loc, ct, nil
	case *ast.IndexExpr:
		a, t, err := ev.expr(x.X, nil)
		if err != nil {
			return "", nil, err
		}
		i, _, err := ev.expr(x.Index, intT)
		if err != nil {
			return "", nil, err
		}
		switch u := t.Underlying().(type) {
		case *types.Slice:
			return fmt.Sprintf("(elem %s %s)", a, i), u.Elem(), nil
		case *types.Pointer:
			if arr, ok := u.Elem().Underlying().(*types.Array); ok {
				return fmt.Sprintf("(aelem %s %s)", a, i), arr.Elem(), nil
			}
		}
		return "", nil, fmt.Errorf("cannot take address of %s", exprString(e))
	}
	return "", nil, fmt.Errorf("not an lvalue: %s", exprString(e))
}

func (ev *evalCtx) index(x *ast.IndexExpr) (string, types.Type, error) {
	a, t, err := ev.expr(x.X, nil)
	if err != nil {
		return "", nil, err
	}
	switch u := t.Underlying().(type) {
	case *types.Slice:
		i, it, err := ev.expr(x.Index, intT)
		if err != nil {
			return "", nil, err
		}
		i = ev.to64(i, it)
		return ev.load(u.Elem(), fmt.Sprintf("(elem %s %s)", a, i)), u.Elem(), nil
	case *types.Basic:
		if u.Info()&types.IsString != 0 {
			i, it, err := ev.expr(x.Index, intT)
			if err != nil {
				return "", nil, err
			}
			i = ev.to64(i, it)
			return fmt.Sprintf("(select (str_arr %s) %s)", a, i), byteT, nil
		}
	case *types.Array:
		i, it, err := ev.expr(x.Index, intT)
		if err != nil {
			return "", nil, err
		}
		i = ev.to64(i, it)
		return fmt.Sprintf("(select %s %s)", a, i), u.Elem(), nil
	case *types.Pointer:
		if arr, ok := u.Elem().Underlying().(*types.Array); ok {
			i, it, err := ev.expr(x.Index, intT)
			if err != nil {
				return "", nil, err
			}
			i = ev.to64(i, it)
			return ev.load(arr.Elem(), fmt.Sprintf("(aelem %s %s)", a, i)), arr.Elem(), nil
		}
	case *types.Map:
		mi := ev.c.te.mapOf(u)
		k, _, err := ev.expr(x.Index, u.Key())
		if err != nil {
			return "", nil, err
		}
		dom := fmt.Sprintf("(select (select %s %s) %s)", ev.H(mi.domK()), a, k)
		val := fmt.Sprintf("(select (select %s %s) %s)", ev.H(mi.valK()), a, k)
		z := ev.c.te.zeroOf(u.Elem())
		if z == "" {
			return val, u.Elem(), nil
		}
		return ite(dom, val, z), u.Elem(), nil
	}
	if t == seqT {
		i, it, err := ev.expr(x.Index, intT)
		if err != nil {
			return "", nil, err
		}
		i = ev.to64(i, it)
		return seqAt(a, i), byteT, nil
	}
	return "", nil, fmt.Errorf("cannot index %s of type %s", exprString(x.X), t)
}

func (ev *evalCtx) to64(a string, t types.Type) string {
	w, signed, ok := ev.c.te.intWidth(t)
	if !ok || w == 64 {
		return a
	}
	if signed {
		return fmt.Sprintf("((_ sign_extend %d) %s)", 64-w, a)
	}
	return fmt.Sprintf("((_ zero_extend %d) %s)", 64-w, a)
}

func (ev *evalCtx) sliceExpr(x *ast.SliceExpr) (string, types.Type, error) {
	a, t, err := ev.expr(x.X, nil)
	if err != nil {
		return "", nil, err
	}
	lo := "#x0000000000000000"
	if x.Low != nil {
		l, lt, err := ev.expr(x.Low, intT)
		if err != nil {
			return "", nil, err
		}
		lo = ev.to64(l, lt)
	}
	switch t.Underlying().(type) {
	case *types.Slice:
		hi := fmt.Sprintf("(s_len %s)", a)
		if x.High != nil {
			h, ht, err := ev.expr(x.High, intT)
			if err != nil {
				return "", nil, err
			}
			hi = ev.to64(h, ht)
		}
		mx := fmt.Sprintf("(s_cap %s)", a)
		if x.Max != nil {
			m, mt, err := ev.expr(x.Max, intT)
			if err != nil {
				return "", nil, err
			}
			mx = ev.to64(m, mt)
		}
		return fmt.Sprintf("(mkSlice (s_arr %s) (bvadd (s_off %s) %s) (bvsub %s %s) (bvsub %s %s))", a, a, lo, hi, lo, mx, lo), t, nil
	case *types.Basic:
		hi := fmt.Sprintf("(str_len %s)", a)
		if x.High != nil {
			h, ht, err := ev.expr(x.High, intT)
			if err != nil {
				return "", nil, err
			}
			hi = ev.to64(h, ht)
		}
		return ev.c.substr(a, lo, hi), t, nil
	}
	if t == seqT {
		heap, h, sl := seqParts(a)
		if !heap {
			return "", nil, fmt.Errorf("cannot slice a string-backed seq")
		}
		return seqH(h, fmt.Sprintf("(mkSlice (s_arr %s) (bvadd (s_off %s) %s) (bvsub (s_len %s) %s) (bvsub (s_cap %s) %s))", sl, sl, lo, sl, lo, sl, lo)), seqT, nil
	}
	return "", nil, fmt.Errorf("cannot slice %s", t)
}

func (ev *evalCtx) lookupType(e ast.Expr) types.Type {
	switch x := e.(type) {
	case *ast.Ident:
		if _, ok := ev.env[x.Name]; ok {
			return nil
		}
		if tn, ok := types.Universe.Lookup(x.Name).(*types.TypeName); ok {
			return tn.Type()
		}
		if ev.pkg != nil {
			if tn, ok := ev.pkg.Scope().Lookup(x.Name).(*types.TypeName); ok {
				return tn.Type()
			}
		}
	case *ast.SelectorExpr:
		if id, ok := x.X.(*ast.Ident); ok {
			if tn, ok := ev.lookupQualified(id.Name, x.Sel.Name).(*types.TypeName); ok {
				return tn.Type()
			}
		}
	case *ast.StarExpr:
		if t := ev.lookupType(x.X); t != nil {
			return types.NewPointer(t)
		}
	case *ast.ArrayType:
		if x.Len == nil {
			if t := ev.lookupType(x.Elt); t != nil {
				return types.NewSlice(t)
			}
		}
	case *ast.ParenExpr:
		return ev.lookupType(x.X)
	}
	return nil
}

func (ev *evalCtx) call(x *ast.CallExpr, want types.Type) (string, types.Type, error) {
	// spec.f(...)
	if sel, ok := x.Fun.(*ast.SelectorExpr); ok {
		if id, ok := sel.X.(*ast.Ident); ok && id.Name == "spec" {
			return ev.specCall(sel.Sel.Name, x.Args)
		}
		if id, ok := sel.X.(*ast.Ident); ok && id.Name == "ghost" {
			return ev.ghostCall(sel.Sel.Name, x.Args)
		}
		// pkg.pred(args): a pred defined in the contract files of another package; its body
		// is evaluated in that package's scope (nested preds, unexported fields)
		if id, ok := sel.X.(*ast.Ident); ok {
			if _, isVar := ev.env[id.Name]; !isVar {
				for _, p := range ev.importsNamed(id.Name) {
					pc := ev.c.P.contracts[p.Path()+"::pred "+sel.Sel.Name]
					if pc == nil || !pc.IsPred || pc.PredBody == nil {
						continue
					}
					if len(x.Args) != len(pc.PredParams) {
						return "", nil, fmt.Errorf("pred %s.%s expects %d arguments", id.Name, sel.Sel.Name, len(pc.PredParams))
					}
					n := *ev
					n.pkg = p
					n.env = map[string]envVal{}
					for i, a := range x.Args {
						t, ty, err := ev.expr(a, nil)
						if err != nil {
							return "", nil, err
						}
						n.env[pc.PredParams[i]] = envVal{t, ty}
					}
					if ev.old != nil {
						o := *ev.old
						o.env = n.env
						o.pkg = p
						n.old = &o
					}
					return n.expr(pc.PredBody.Expr, want)
				}
			}
		}
	}
	// conversion
	if t := ev.lookupType(x.Fun); t != nil && len(x.Args) == 1 {
		a, at, err := ev.expr(x.Args[0], t)
		if err != nil {
			return "", nil, err
		}
		if at == mathT {
			return "", nil, fmt.Errorf("conversion from mathematical integer not supported")
		}
		if r, ok := ev.c.convTerm(at, t, a); ok {
			return r, t, nil
		}
		if ev.c.te.sortOf(at) == ev.c.te.sortOf(t) {
			return a, t, nil
		}
		if ev.c.te.sortOf(t) == "Str" && ev.c.te.sortOf(at) == "Slice" {
			return ev.c.bytesToStr(a, ev.H("bv8")), t, nil
		}
		return "", nil, fmt.Errorf("unsupported conversion %s -> %s", at, t)
	}
	id, ok := x.Fun.(*ast.Ident)
	if !ok {
		return "", nil, fmt.Errorf("unsupported call %s", exprString(x))
	}
	argc := func(n int) error {
		if len(x.Args) != n {
			return fmt.Errorf("%s expects %d arguments", id.Name, n)
		}
		return nil
	}
	switch id.Name {
	case "old":
		if err := argc(1); err != nil {
			return "", nil, err
		}
		if ev.old == nil {
			return ev.expr(x.Args[0], want)
		}
		o := *ev.old
		o.bound = ev.bound
		return o.expr(x.Args[0], want)
	case "imp", "iff":
		if err := argc(2); err != nil {
			return "", nil, err
		}
		if id.Name == "imp" && ev.externCallee && ev.deadAntecedent(x.Args[0]) {
			// a conjunct of the antecedent is typeis(x, T) for a type of a package that is not
			// part of the analysed program: no value of that dynamic type exists, the
			// implication holds trivially (T cannot even be named in the consequent)
			return "true", boolT, nil
		}
		a, err := ev.boolExpr(x.Args[0])
		if err != nil {
			return "", nil, err
		}
		b, err := ev.boolExpr(x.Args[1])
		if err != nil {
			return "", nil, err
		}
		if id.Name == "imp" {
			return imp(a, b), boolT, nil
		}
		return fmt.Sprintf("(= %s %s)", a, b), boolT, nil
	case "ite":
		if err := argc(3); err != nil {
			return "", nil, err
		}
		cnd, err := ev.boolExpr(x.Args[0])
		if err != nil {
			return "", nil, err
		}
		// a branch that is an untyped constant takes the type of the other branch
		if isUntypedConstExpr(x.Args[1]) && !isUntypedConstExpr(x.Args[2]) {
			b, tb, err := ev.expr(x.Args[2], want)
			if err != nil {
				return "", nil, err
			}
			a, _, err := ev.expr(x.Args[1], tb)
			if err != nil {
				return "", nil, err
			}
			return ite(cnd, a, b), tb, nil
		}
		a, ta, err := ev.expr(x.Args[1], want)
		if err != nil {
			return "", nil, err
		}
		b, _, err := ev.expr(x.Args[2], ta)
		if err != nil {
			return "", nil, err
		}
		return ite(cnd, a, b), ta, nil
	case "forall", "exists":
		// forall(i, lo, hi, body [, trigger]) : optional instantiation trigger term
		if len(x.Args) != 4 && len(x.Args) != 5 {
			return "", nil, fmt.Errorf("%s expects 4 or 5 arguments", id.Name)
		}
		v, ok := x.Args[0].(*ast.Ident)
		if !ok {
			return "", nil, fmt.Errorf("%s: first argument must be a variable name", id.Name)
		}
		lo, lt, err := ev.expr(x.Args[1], intT)
		if err != nil {
			return "", nil, err
		}
		hi, ht, err := ev.expr(x.Args[2], intT)
		if err != nil {
			return "", nil, err
		}
		lo, hi = ev.to64(lo, lt), ev.to64(hi, ht)
		*ev.qn++
		qv := fmt.Sprintf("q%d_%s", *ev.qn, v.Name)
		n := *ev
		n.bound = map[string]envVal{}
		for k, b := range ev.bound {
			n.bound[k] = b
		}
		n.bound[v.Name] = envVal{qv, intT}
		if n.old != nil {
			o := *n.old
			o.bound = n.bound
			n.old = &o
		}
		body, err := n.boolExpr(x.Args[3])
		if err != nil {
			return "", nil, err
		}
		rng := fmt.Sprintf("(and (bvsle %s %s) (bvslt %s %s))", lo, qv, qv, hi)
		if id.Name == "forall" {
			if len(x.Args) == 5 {
				trig, _, err := n.expr(x.Args[4], nil)
				if err != nil {
					return "", nil, err
				}
				return fmt.Sprintf("(forall ((%s (_ BitVec 64))) (! (=> %s %s) :pattern (%s)))", qv, rng, body, trig), boolT, nil
			}
			return fmt.Sprintf("(forall ((%s (_ BitVec 64))) (=> %s %s))", qv, rng, body), boolT, nil
		}
		return fmt.Sprintf("(exists ((%s (_ BitVec 64))) (and %s %s))", qv, rng, body), boolT, nil
	case "len", "cap":
		if err := argc(1); err != nil {
			return "", nil, err
		}
		a, t, err := ev.expr(x.Args[0], nil)
		if err != nil {
			return "", nil, err
		}
		switch u := t.Underlying().(type) {
		case *types.Slice:
			if id.Name == "len" {
				return fmt.Sprintf("(s_len %s)", a), intT, nil
			}
			return fmt.Sprintf("(s_cap %s)", a), intT, nil
		case *types.Basic:
			return fmt.Sprintf("(str_len %s)", a), intT, nil
		case *types.Array:
			return bv64(u.Len()), intT, nil
		case *types.Pointer:
			if arr, ok := u.Elem().Underlying().(*types.Array); ok {
				return bv64(arr.Len()), intT, nil
			}
		case *types.Map:
			mi := ev.c.te.mapOf(u)
			return fmt.Sprintf("(select %s %s)", ev.H(mi.lenK()), a), intT, nil
		}
		return "", nil, fmt.Errorf("len of %s", t)
	case "same":
		if err := argc(2); err != nil {
			return "", nil, err
		}
		a, ta, err := ev.expr(x.Args[0], nil)
		if err != nil {
			return "", nil, err
		}
		b, tb, err := ev.expr(x.Args[1], nil)
		if err != nil {
			return "", nil, err
		}
		if ev.c.te.sortOf(ta) != ev.c.te.sortOf(tb) {
			return "", nil, fmt.Errorf("same: sort mismatch %s vs %s", ta, tb)
		}
		return fmt.Sprintf("(= %s %s)", a, b), boolT, nil
	case "samedata":
		// same backing elements (arr, off, len) regardless of capacity
		if err := argc(2); err != nil {
			return "", nil, err
		}
		a, _, err := ev.expr(x.Args[0], nil)
		if err != nil {
			return "", nil, err
		}
		b, _, err := ev.expr(x.Args[1], nil)
		if err != nil {
			return "", nil, err
		}
		return fmt.Sprintf("(and (= (s_arr %s) (s_arr %s)) (= (s_off %s) (s_off %s)) (= (s_len %s) (s_len %s)))", a, b, a, b, a, b), boolT, nil
	case "eq":
		// equal length and contents of two byte slices / strings / seqs (current heap)
		if err := argc(2); err != nil {
			return "", nil, err
		}
		a, la, err := ev.asSeq(x.Args[0])
		if err != nil {
			return "", nil, err
		}
		b, lb, err := ev.asSeq(x.Args[1])
		if err != nil {
			return "", nil, err
		}
		*ev.qn++
		qv := fmt.Sprintf("q%d_e", *ev.qn)
		if la == "" || lb == "" {
			return "", nil, fmt.Errorf("eq: sequence of unknown length")
		}
		return fmt.Sprintf("(and (= %s %s) (forall ((%s (_ BitVec 64))) (=> (and (bvsle #x0000000000000000 %s) (bvslt %s %s)) (= %s %s))))", la, lb, qv, qv, qv, la, seqAt(a, qv), seqAt(b, qv)), boolT, nil
	case "list_pos":
		// list_pos(l, e): index of element e in list l, -1 when e is not in l
		ev.c.te.usesLists = true
		if err := argc(2); err != nil {
			return "", nil, err
		}
		l, _, err := ev.expr(x.Args[0], nil)
		if err != nil {
			return "", nil, err
		}
		e, _, err := ev.expr(x.Args[1], nil)
		if err != nil {
			return "", nil, err
		}
		return fmt.Sprintf("(select (select %s %s) %s)", ev.H("ghost:lpos"), l, e), intT, nil
	case "allocated":
		// allocated(p): p (pointer or slice) refers to an object that exists in this state
		if err := argc(1); err != nil {
			return "", nil, err
		}
		a, t, err := ev.expr(x.Args[0], nil)
		if err != nil {
			return "", nil, err
		}
		al := ev.c.hOf(ev.heap, "alloc")
		switch ev.c.te.sortOf(t) {
		case "Loc":
			return fmt.Sprintf("(< (base %s) %s)", a, al), boolT, nil
		case "Slice":
			return fmt.Sprintf("(< (base (s_arr %s)) %s)", a, al), boolT, nil
		}
		return "", nil, fmt.Errorf("allocated of %s", t)
	case "forallv":
		// forallv(x, T, body [, trigger]): universal quantification over all values of Go type
		// T; the optional trigger term (x in scope) becomes the quantifier's :pattern
		if len(x.Args) != 3 && len(x.Args) != 4 {
			return "", nil, fmt.Errorf("forallv expects 3 or 4 arguments")
		}
		v, ok := x.Args[0].(*ast.Ident)
		if !ok {
			return "", nil, fmt.Errorf("forallv: first argument must be a variable name")
		}
		qt := ev.lookupType(x.Args[1])
		if qt == nil {
			return "", nil, fmt.Errorf("forallv: unknown type %s", exprString(x.Args[1]))
		}
		*ev.qn++
		qv := fmt.Sprintf("q%d_%s", *ev.qn, v.Name)
		n := *ev
		n.bound = map[string]envVal{}
		for k, b := range ev.bound {
			n.bound[k] = b
		}
		n.bound[v.Name] = envVal{qv, qt}
		if n.old != nil {
			o := *n.old
			o.bound = n.bound
			n.old = &o
		}
		body, err := n.boolExpr(x.Args[2])
		if err != nil {
			return "", nil, err
		}
		if len(x.Args) == 4 {
			trig, _, err := n.expr(x.Args[3], nil)
			if err != nil {
				return "", nil, fmt.Errorf("forallv trigger: %v", err)
			}
			if strings.Contains(trig, qv) {
				return fmt.Sprintf("(forall ((%s %s)) (! %s :pattern (%s)))", qv, ev.c.te.sortOf(qt), body, trig), boolT, nil
			}
		}
		return fmt.Sprintf("(forall ((%s %s)) %s)", qv, ev.c.te.sortOf(qt), body), boolT, nil
	case "list_len", "list_at":
		// ghost view of a container/list.List: its elements, front first
		ev.c.te.usesLists = true
		l, lt, err := ev.expr(x.Args[0], nil)
		if err != nil {
			return "", nil, err
		}
		if ev.c.te.sortOf(lt) != "Loc" {
			return "", nil, fmt.Errorf("%s: first argument must be a *list.List", id.Name)
		}
		if id.Name == "list_len" {
			if err := argc(1); err != nil {
				return "", nil, err
			}
			return fmt.Sprintf("(select %s %s)", ev.H("ghost:llen"), l), intT, nil
		}
		if err := argc(2); err != nil {
			return "", nil, err
		}
		i, it, err := ev.expr(x.Args[1], intT)
		if err != nil {
			return "", nil, err
		}
		et := ev.c.P.listElemPtr()
		if et == nil {
			return "", nil, fmt.Errorf("container/list is not loaded")
		}
		return fmt.Sprintf("(select (select %s %s) %s)", ev.H("ghost:lseq"), l, ev.to64(i, it)), et, nil
	case "offset":
		// offset(s): index of s[0] within its backing array (to relate sub-slices of one array)
		if err := argc(1); err != nil {
			return "", nil, err
		}
		a, t, err := ev.expr(x.Args[0], nil)
		if err != nil {
			return "", nil, err
		}
		if ev.c.te.sortOf(t) != "Slice" {
			return "", nil, fmt.Errorf("offset of %s", t)
		}
		return fmt.Sprintf("(s_off %s)", a), intT, nil
	case "fresh":
		// fresh(x): x (pointer or slice) refers to an object allocated during this call
		// (or is nil) - it cannot alias anything the caller passed in
		if err := argc(1); err != nil {
			return "", nil, err
		}
		a, t, err := ev.expr(x.Args[0], nil)
		if err != nil {
			return "", nil, err
		}
		a0 := ev.c.hOf(ev.heap, "alloc")
		if ev.old != nil {
			a0 = ev.c.hOf(ev.old.heap, "alloc")
		}
		switch ev.c.te.sortOf(t) {
		case "Loc":
			return fmt.Sprintf("(or (= %s NullLoc) (>= (base %s) %s))", a, a, a0), boolT, nil
		case "Slice":
			return fmt.Sprintf("(or (= (s_arr %s) NullLoc) (>= (base (s_arr %s)) %s))", a, a, a0), boolT, nil
		}
		return "", nil, fmt.Errorf("fresh of %s", t)
	case "samebase":
		// samebase(a, b): a and b (pointers or slices) refer into the same allocation
		if err := argc(2); err != nil {
			return "", nil, err
		}
		var bases []string
		for _, arg := range x.Args {
			a, t, err := ev.expr(arg, nil)
			if err != nil {
				return "", nil, err
			}
			switch ev.c.te.sortOf(t) {
			case "Loc":
				bases = append(bases, fmt.Sprintf("(base %s)", a))
			case "Slice":
				bases = append(bases, fmt.Sprintf("(base (s_arr %s))", a))
			default:
				return "", nil, fmt.Errorf("samebase of %s", t)
			}
		}
		return fmt.Sprintf("(= %s %s)", bases[0], bases[1]), boolT, nil
	case "sep":
		// sep(a, b): a and b (pointers or slices) lie in different allocations, or one is nil
		if err := argc(2); err != nil {
			return "", nil, err
		}
		var bases []string
		for _, arg := range x.Args {
			a, t, err := ev.expr(arg, nil)
			if err != nil {
				return "", nil, err
			}
			switch ev.c.te.sortOf(t) {
			case "Loc":
				bases = append(bases, fmt.Sprintf("(base %s)", a))
			case "Slice":
				bases = append(bases, fmt.Sprintf("(base (s_arr %s))", a))
			default:
				return "", nil, fmt.Errorf("sep of %s", t)
			}
		}
		return fmt.Sprintf("(or (= %s 0) (= %s 0) (not (= %s %s)))", bases[0], bases[1], bases[0], bases[1]), boolT, nil
	case "wf":
		if err := argc(1); err != nil {
			return "", nil, err
		}
		a, t, err := ev.expr(x.Args[0], nil)
		if err != nil {
			return "", nil, err
		}
		if ev.c.te.sortOf(t) == "Str" {
			return "(wfstr " + a + ")", boolT, nil
		}
		return "(wf " + a + ")", boolT, nil
	case "seq":
		if err := argc(1); err != nil {
			return "", nil, err
		}
		a, _, err := ev.asSeq(x.Args[0])
		if err != nil {
			return "", nil, err
		}
		return a, seqT, nil
	case "math":
		if err := argc(1); err != nil {
			return "", nil, err
		}
		a, t, err := ev.expr(x.Args[0], intT)
		if err != nil {
			return "", nil, err
		}
		return ev.toMath(a, t), mathT, nil
	case "apply":
		// apply(f, args...): result of calling the pure function value f (uses purefuncs)
		if len(x.Args) < 1 {
			return "", nil, fmt.Errorf("apply needs a function value")
		}
		f, ft, err := ev.expr(x.Args[0], nil)
		if err != nil {
			return "", nil, err
		}
		sig, ok := ft.Underlying().(*types.Signature)
		if !ok || sig.Results().Len() != 1 || sig.Params().Len() != len(x.Args)-1 {
			return "", nil, fmt.Errorf("apply: %s is not a function value with %d parameters and one result", ft, len(x.Args)-1)
		}
		terms := []string{f}
		var sorts []string
		for i, a := range x.Args[1:] {
			pt := sig.Params().At(i).Type()
			t, _, err := ev.expr(a, pt)
			if err != nil {
				return "", nil, err
			}
			terms = append(terms, t)
			sorts = append(sorts, ev.c.te.sortOf(pt))
		}
		rt := sig.Results().At(0).Type()
		fn := ev.c.te.applyFn(sorts, ev.c.te.sortOf(rt))
		return fmt.Sprintf("(%s %s)", fn, strings.Join(terms, " ")), rt, nil
	case "nonnil":
		if err := argc(1); err != nil {
			return "", nil, err
		}
		a, t, err := ev.expr(x.Args[0], nil)
		if err != nil {
			return "", nil, err
		}
		switch ev.c.te.sortOf(t) {
		case "Slice":
			return fmt.Sprintf("(not (= (s_arr %s) NullLoc))", a), boolT, nil
		case "Loc":
			return fmt.Sprintf("(not (= %s NullLoc))", a), boolT, nil
		case "Iface":
			return fmt.Sprintf("(not (= (i_typ %s) 0))", a), boolT, nil
		case "Fn":
			return fmt.Sprintf("(not (= (fn_id %s) 0))", a), boolT, nil
		}
		return "", nil, fmt.Errorf("nonnil of %s", t)
	case "rpos":
		// rpos(): byte position of the function's string range iterator (the only one)
		if err := argc(0); err != nil {
			return "", nil, err
		}
		if len(ev.c.rangeLocs) != 1 {
			return "", nil, fmt.Errorf("rpos(): the function has %d string range loops seen so far, need exactly one", len(ev.c.rangeLocs))
		}
		for _, l := range ev.c.rangeLocs {
			return fmt.Sprintf("(select %s %s)", ev.H("bv64"), l), intT, nil
		}
	case "rstr":
		// rstr(): the string the function's (only) string range loop iterates over - for
		// loops over an unnamed value such as `for _, r := range v.String()`
		if err := argc(0); err != nil {
			return "", nil, err
		}
		if len(ev.c.rangeLocs) != 1 {
			return "", nil, fmt.Errorf("rstr(): the function has %d string range loops seen so far, need exactly one", len(ev.c.rangeLocs))
		}
		for x := range ev.c.rangeLocs {
			return ev.c.v(x.X), x.X.Type(), nil
		}
	case "sameheap":
		// sameheap(): every heap component (and the allocation counter) is what it was at
		// function entry - "the call had no effect at all" (for contracts whose frame is
		// otherwise `modifies all`)
		if err := argc(0); err != nil {
			return "", nil, err
		}
		if ev.old == nil {
			return "true", boolT, nil
		}
		var eqs []string
		for _, k := range append([]string{"alloc"}, ev.c.allComps()...) {
			a, b := ev.heap[k], ev.old.heap[k]
			if a == b {
				continue // same version (or both still the initial one)
			}
			eqs = append(eqs, fmt.Sprintf("(= %s %s)", ev.H(k), ev.old.H(k)))
		}
		return and(eqs...), boolT, nil
	case "atentry":
		// atentry(e): value of e when the loop was entered (loop invariants only)
		if err := argc(1); err != nil {
			return "", nil, err
		}
		if ev.loopEntry == nil {
			return "", nil, fmt.Errorf("atentry is only available in loop invariants")
		}
		le := *ev.loopEntry
		le.bound = ev.bound
		le.qn = ev.qn
		return le.expr(x.Args[0], want)
	case "implements":
		// implements(x, I): interface value x is non-nil and its dynamic type satisfies the
		// interface type I (the relation type assertions x.(I) test)
		if err := argc(2); err != nil {
			return "", nil, err
		}
		a, _, err := ev.expr(x.Args[0], nil)
		if err != nil {
			return "", nil, err
		}
		t := ev.lookupType(x.Args[1])
		if t == nil {
			return "", nil, fmt.Errorf("implements: unknown type %s", exprString(x.Args[1]))
		}
		if _, isI := t.Underlying().(*types.Interface); !isI {
			return "", nil, fmt.Errorf("implements: %s is not an interface type", t)
		}
		ev.c.noteIfaceAssert(t)
		ev.c.syncImplFacts()
		return fmt.Sprintf("(and (not (= (i_typ %s) 0)) (implements (i_typ %s) %d))", a, a, ev.c.P.typeID(t)), boolT, nil
	case "typeis":
		// typeis(x, T): dynamic type of interface x is T
		if err := argc(2); err != nil {
			return "", nil, err
		}
		a, _, err := ev.expr(x.Args[0], nil)
		if err != nil {
			return "", nil, err
		}
		t := ev.lookupType(x.Args[1])
		if t == nil {
			return "", nil, fmt.Errorf("typeis: unknown type %s", exprString(x.Args[1]))
		}
		return fmt.Sprintf("(= (i_typ %s) %d)", a, ev.c.P.typeID(t)), boolT, nil
	case "unboxed":
		// unboxed(x, T): the T value held in interface x
		if err := argc(2); err != nil {
			return "", nil, err
		}
		a, _, err := ev.expr(x.Args[0], nil)
		if err != nil {
			return "", nil, err
		}
		t := ev.lookupType(x.Args[1])
		if t == nil {
			return "", nil, fmt.Errorf("unboxed: unknown type %s", exprString(x.Args[1]))
		}
		return ev.c.unbox(t, "(i_val "+a+")"), t, nil
	case "has":
		// has(m, k): key k present in map m
		if err := argc(2); err != nil {
			return "", nil, err
		}
		a, t, err := ev.expr(x.Args[0], nil)
		if err != nil {
			return "", nil, err
		}
		mt, ok := t.Underlying().(*types.Map)
		if !ok {
			return "", nil, fmt.Errorf("has: not a map")
		}
		mi := ev.c.te.mapOf(mt)
		k, _, err := ev.expr(x.Args[1], mt.Key())
		if err != nil {
			return "", nil, err
		}
		return fmt.Sprintf("(select (select %s %s) %s)", ev.H(mi.domK()), a, k), boolT, nil
	case "min", "max":
		if err := argc(2); err != nil {
			return "", nil, err
		}
		a, ta, err := ev.expr(x.Args[0], want)
		if err != nil {
			return "", nil, err
		}
		b, _, err := ev.expr(x.Args[1], ta)
		if err != nil {
			return "", nil, err
		}
		_, signed, _ := ev.c.te.intWidth(ta)
		op := "bvule"
		if signed {
			op = "bvsle"
		}
		if id.Name == "min" {
			return fmt.Sprintf("(ite (%s %s %s) %s %s)", op, a, b, a, b), ta, nil
		}
		return fmt.Sprintf("(ite (%s %s %s) %s %s)", op, a, b, b, a), ta, nil
	}
	// user-defined predicate (macro)
	var pc *Contract
	if ev.pkg != nil {
		pc = ev.c.P.contracts[ev.pkg.Path()+"::pred "+id.Name]
	}
	if pc == nil {
		pc = ev.c.P.contracts["::pred "+id.Name]
	}
	if pc != nil && pc.IsPred && pc.PredBody != nil {
		if len(x.Args) != len(pc.PredParams) {
			return "", nil, fmt.Errorf("pred %s expects %d arguments", id.Name, len(pc.PredParams))
		}
		n := *ev
		n.env = map[string]envVal{}
		for i, a := range x.Args {
			t, ty, err := ev.expr(a, nil)
			if err != nil {
				return "", nil, err
			}
			n.env[pc.PredParams[i]] = envVal{t, ty}
		}
		if ev.old != nil {
			o := *ev.old
			o.env = n.env
			n.old = &o
		}
		// a pred is a macro: its body may be a formula or any other term
		return n.expr(pc.PredBody.Expr, want)
	}
	return "", nil, fmt.Errorf("unknown function %s in contract expression", id.Name)
}

// asSeq turns a byte slice / string / seq expression into (array term, length term).
func (ev *evalCtx) asSeq(e ast.Expr) (string, string, error) {
	a, t, err := ev.expr(e, nil)
	if err != nil {
		return "", "", err
	}
	if t == seqT {
		if heap, _, sl := seqParts(a); heap {
			return a, fmt.Sprintf("(s_len %s)", sl), nil
		}
		return a, "", nil
	}
	switch u := t.Underlying().(type) {
	case *types.Slice:
		if ev.c.te.kindOf(u.Elem()) != "bv8" {
			return "", "", fmt.Errorf("seq of non-byte slice %s", t)
		}
		return seqH(ev.H("bv8"), a), fmt.Sprintf("(s_len %s)", a), nil
	case *types.Basic:
		if u.Info()&types.IsString != 0 {
			return seqA(fmt.Sprintf("(str_arr %s)", a)), fmt.Sprintf("(str_len %s)", a), nil
		}
	}
	return "", "", fmt.Errorf("cannot view %s as a byte sequence", t)
}

func (ev *evalCtx) specCall(name string, args []ast.Expr) (string, types.Type, error) {
	sf := ev.c.P.specs[name]
	if sf == nil {
		return "", nil, fmt.Errorf("unknown spec function spec.%s", name)
	}
	if len(args) != len(sf.params) {
		return "", nil, fmt.Errorf("spec.%s expects %d arguments", name, len(sf.params))
	}
	var ts []string
	suffix := ""
	nseq := 0
	for i, a := range args {
		pt := sf.params[i]
		if pt == seqT {
			t, _, err := ev.asSeq(a)
			if err != nil {
				return "", nil, err
			}
			heap, x, y := seqParts(t)
			sfx := "_a"
			if heap {
				sfx = ""
				ts = append(ts, x, y)
			} else {
				ts = append(ts, x)
			}
			if nseq > 0 && sfx != suffix {
				return "", nil, fmt.Errorf("spec.%s: mixed sequence representations", name)
			}
			suffix = sfx
			nseq++
			continue
		}
		t, at, err := ev.expr(a, pt)
		if err == nil && ev.c.te.sortOf(at) != ev.c.te.sortOf(pt) {
			err = fmt.Errorf("argument %d of spec.%s: have %s want %s", i+1, name, at, pt)
		}
		if err != nil {
			return "", nil, err
		}
		ts = append(ts, t)
	}
	ev.c.useSpec(sf)
	if len(ts) == 0 {
		return sf.name, sf.result, nil
	}
	return fmt.Sprintf("(%s%s %s)", sf.name, suffix, strings.Join(ts, " ")), sf.result, nil
}

func (ev *evalCtx) ghostCall(name string, args []ast.Expr) (string, types.Type, error) {
	// ghost.name(args...) : boolean ghost relation stored as an uninterpreted heap component
	var ts, sorts []string
	for _, a := range args {
		t, ty, err := ev.expr(a, nil)
		if err != nil {
			return "", nil, err
		}
		ts = append(ts, t)
		sorts = append(sorts, ev.c.te.sortOf(ty))
	}
	comp := ev.c.te.ghostComp(name, sorts)
	h := ev.H(comp)
	return fmt.Sprintf("(%s_get %s %s)", sanitize(comp), h, strings.Join(ts, " ")), boolT, nil
}

// lemmaExpr: a conjunction of applications of proved lemmas (spec functions declared
// with ";; lemma"). Nothing else may be assumed through a lemma clause.
func (ev *evalCtx) lemmaExpr(e ast.Expr) (string, error) {
	var parts []string
	for _, cj := range splitConj(e) {
		call, ok := cj.(*ast.CallExpr)
		if !ok {
			return "", fmt.Errorf("lemma clause must apply spec lemmas: %s", exprString(cj))
		}
		sel, ok := call.Fun.(*ast.SelectorExpr)
		id, ok2 := sel, ok
		_ = id
		if !ok || !ok2 {
			return "", fmt.Errorf("lemma clause must apply spec lemmas: %s", exprString(cj))
		}
		if x, ok := sel.X.(*ast.Ident); !ok || x.Name != "spec" {
			return "", fmt.Errorf("lemma clause must apply spec lemmas: %s", exprString(cj))
		}
		sf := ev.c.P.specs[sel.Sel.Name]
		if sf == nil || !sf.isLemma {
			return "", fmt.Errorf("spec.%s is not a lemma", sel.Sel.Name)
		}
		t, _, err := ev.specCall(sel.Sel.Name, call.Args)
		if err != nil {
			return "", err
		}
		ev.c.lemmasUsed[sel.Sel.Name] = true
		parts = append(parts, t)
	}
	return and(parts...), nil
}

// ---- modifies sets

type modSet struct {
	exact  []modLeaf
	ranges []modRange
	unders []string
	rels   map[string]bool // ghost relations (component keys "ghost:name") modified as a whole
	all    bool
}

// isRelComp: a ghost relation component (ghost.name(...)), as opposed to a heap array.
func isRelComp(k string) bool {
	return strings.HasPrefix(k, "ghost:") && k != "ghost:llen" && k != "ghost:lseq" && k != "ghost:lpos"
}
type modLeaf struct{ kind, loc string }
type modRange struct {
	kinds  map[string]bool
	slice  string
	lo, hi string
}

func (ev *evalCtx) modSet(cls []Clause) (*modSet, error) {
	ms := &modSet{}
	for _, cl := range cls {
		if err := ev.modOne(ms, cl.Expr); err != nil {
			return nil, fmt.Errorf("%q: %v", cl.Text, err)
		}
	}
	return ms, nil
}

func (ev *evalCtx) modOne(ms *modSet, e ast.Expr) error {
	if sel, ok := e.(*ast.SelectorExpr); ok {
		if id, ok := sel.X.(*ast.Ident); ok && id.Name == "ghost" {
			// `modifies ghost.name`: the ghost relation may change arbitrarily
			if ms.rels == nil {
				ms.rels = map[string]bool{}
			}
			ms.rels["ghost:"+sel.Sel.Name] = true
			return nil
		}
	}
	if call, ok := e.(*ast.CallExpr); ok {
		if id, ok := call.Fun.(*ast.Ident); ok {
			switch id.Name {
			case "loc":
				return ev.modOne(ms, call.Args[0])
			case "list":
				// the ghost view (length and element sequence) of a *list.List
				ev.c.te.usesLists = true
				a, _, err := ev.expr(call.Args[0], nil)
				if err != nil {
					return err
				}
				ms.exact = append(ms.exact, modLeaf{"ghost:llen", a}, modLeaf{"ghost:lseq", a}, modLeaf{"ghost:lpos", a})
				return nil
			case "elems":
				a, t, err := ev.expr(call.Args[0], nil)
				if err != nil {
					return err
				}
				sl, ok := t.Underlying().(*types.Slice)
				if !ok {
					return fmt.Errorf("elems of non-slice")
				}
				ks := map[string]bool{}
				ev.c.te.leafKinds(sl.Elem(), ks)
				lo, hi := "#x0000000000000000", fmt.Sprintf("(s_len %s)", a)
				if len(call.Args) == 3 {
					l, lt, err := ev.expr(call.Args[1], intT)
					if err != nil {
						return err
					}
					h, ht, err := ev.expr(call.Args[2], intT)
					if err != nil {
						return err
					}
					lo, hi = ev.to64(l, lt), ev.to64(h, ht)
				}
				if ev.c.te.kindOf(sl.Elem()) == "" {
					// aggregate elements: approximate by the whole backing object
					ms.unders = append(ms.unders, fmt.Sprintf("(base (s_arr %s))", a))
					return nil
				}
				ms.ranges = append(ms.ranges, modRange{kinds: ks, slice: a, lo: lo, hi: hi})
				return nil
			case "under":
				a, t, err := ev.expr(call.Args[0], nil)
				if err != nil {
					return err
				}
				switch ev.c.te.sortOf(t) {
				case "Loc":
					ms.unders = append(ms.unders, fmt.Sprintf("(base %s)", a))
				case "Slice":
					ms.unders = append(ms.unders, fmt.Sprintf("(base (s_arr %s))", a))
				default:
					return fmt.Errorf("under of %s", t)
				}
				return nil
			}
		}
	}
	loc, t, err := ev.addr(e)
	if err != nil {
		return err
	}
	ev.leaves(ms, t, loc, 0)
	return nil
}

func (ev *evalCtx) leaves(ms *modSet, t types.Type, loc string, depth int) {
	switch u := t.Underlying().(type) {
	case *types.Struct:
		for i := 0; i < u.NumFields(); i++ {
			ev.leaves(ms, u.Field(i).Type(), fmt.Sprintf("(fld %s %d)", loc, i), depth+1)
		}
		return
	case *types.Array:
		if u.Len() <= 8 {
			for i := int64(0); i < u.Len(); i++ {
				ev.leaves(ms, u.Elem(), fmt.Sprintf("(aelem %s %s)", loc, bv64(i)), depth+1)
			}
			return
		}
		ms.unders = append(ms.unders, fmt.Sprintf("(base %s)", loc))
		return
	}
	ms.exact = append(ms.exact, modLeaf{ev.c.te.kindOf(t), loc})
}

// inSet: term stating that location l of heap component k is in the set.
func (ms *modSet) inSet(k, l string) string {
	if ms.all {
		return "true"
	}
	if isRelComp(k) {
		if ms.rels[k] {
			return "true"
		}
		return "false"
	}
	var ds []string
	for _, e := range ms.exact {
		if e.kind == k {
			ds = append(ds, fmt.Sprintf("(= %s %s)", l, e.loc))
		}
	}
	for _, r := range ms.ranges {
		if r.kinds[k] {
			ds = append(ds, fmt.Sprintf("(inrange %s %s %s %s)", l, r.slice, r.lo, r.hi))
		}
	}
	for _, u := range ms.unders {
		ds = append(ds, fmt.Sprintf("(= (base %s) %s)", l, u))
	}
	return or(ds...)
}

func (ms *modSet) kinds(c *FnVC) map[string]bool {
	ks := map[string]bool{}
	for _, e := range ms.exact {
		ks[e.kind] = true
	}
	for k := range ms.rels {
		ks[k] = true
	}
	for _, r := range ms.ranges {
		for k := range r.kinds {
			ks[k] = true
		}
	}
	if len(ms.unders) > 0 || ms.all {
		for _, k := range c.allComps() {
			ks[k] = true
		}
	}
	return ks
}

func atoi(s string) int { n, _ := strconv.Atoi(s); return n }

func isUntypedConstExpr(e ast.Expr) bool {
	switch x := e.(type) {
	case *ast.BasicLit:
		return true
	case *ast.ParenExpr:
		return isUntypedConstExpr(x.X)
	case *ast.UnaryExpr:
		return isUntypedConstExpr(x.X)
	case *ast.BinaryExpr:
		return isUntypedConstExpr(x.X) && isUntypedConstExpr(x.Y)
	}
	return false
}
