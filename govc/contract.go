package main

// Contract files: comment-only Go files (//go:build verif) inside /repo packages and
// *.contracts files under /verif/extern. A contract block is a run of //@ lines.

import (
	"bufio"
	"fmt"
	"go/ast"
	"go/parser"
	"os"
	"path/filepath"
	"regexp"
	"strconv"
	"strings"
)

type Clause struct {
	Text string
	Expr ast.Expr
	Tag  string // optional label  [name]
	// AssumedOnly: an ensures added by `extern refine func pkg::Name` to the contract of a
	// repo function (a ghost-event definition): assumed at call sites, not an obligation of
	// the function itself; listed as an assumption.
	AssumedOnly bool
}

type LoopSpec struct {
	Invariants []Clause
	Decreases  *Clause
	Modifies   []Clause // optional explicit loop frame
	HasMod     bool
	Lemmas     []Clause
}

type AtAssert struct {
	Callee string // substring match on callee name
	Nth    int    // 1-based occurrence, 0 = all
	C      Clause
	After  bool // `after call`: checked in the state after the call, may name result(s)
}

type Contract struct {
	Pkg        string // import path
	Name       string // RelString form, e.g. (*String).read ; for extern: full ssa name
	Extern     bool
	Requires   []Clause
	Ensures    []Clause
	Modifies   []Clause
	ModAll     bool
	HasMod     bool
	MayPanic   bool
	PanicsWhen *Clause
	Trusted    bool
	Pure       bool
	NoAlloc    bool
	MayAlloc   bool
	Terminates bool
	Decreases  *Clause
	AllocBound *Clause
	Loops      map[int]*LoopSpec
	At         []AtAssert
	Unreach    []int // block indices declared unreachable (cover guard)
	AssumeNoPanic []string
	Refine        bool // `extern refine func`: ensures to be appended to the base extern contract
	// CallMods / CallRequires: an `extern refine func pkg::Name` block with a modifies clause
	// on a repo function whose own (proved) contract says `modifies all`: callers use this
	// ASSUMED frame (under these extra requires) instead; the function's own obligations
	// are unaffected. Listed as an assumption.
	CallMods     []Clause
	CallRequires []Clause
	callView     *Contract
	Claims        []string // `claims <classes>`: only obligations of these classes are generated for the function; everything else about it is explicitly NOT claimed (reported as partially covered)
	Splits        []Clause // `split E`: every obligation is proved once under E and once under !E (entry state)
	AssumePure    []string // callees without contract assumed not to panic and to have no heap effect
	Abstract   bool  // body translated with havoc tolerance; only listed obligations
	Uses       map[string]bool
	Lemmas     []Clause // proved lemma instances assumed at entry
	LemmasRet  []Clause // ... at return (may mention result / old)
	File       string
	Line       int
	IsPred     bool
	IsGlobal   bool
	PredParams []string
	PredBody   *Clause
}

var clauseKW = map[string]bool{"requires": true, "ensures": true, "modifies": true, "nopanic": true, "maypanic": true,
	"panics_when": true, "trusted": true, "pure": true, "noalloc": true, "mayalloc": true, "terminates": true, "decreases": true, "alloc": true,
	"loop": true, "at": true, "after": true, "func": true, "extern": true, "pkg": true, "uses": true, "abstract": true, "unreachable": true, "lemma": true, "lemma_ret": true, "pred": true, "global": true, "assume_nopanic": true, "assume_pure": true, "split": true, "claims": true}

var reImp = regexp.MustCompile(`<==>|==>`)

// splitTop splits s at top-level occurrences of sep (outside parentheses/brackets/quotes).
func splitTop(s, sep string) []string {
	var out []string
	depth := 0
	last := 0
	inStr := byte(0)
	for i := 0; i < len(s); i++ {
		ch := s[i]
		if inStr != 0 {
			if ch == '\\' {
				i++
			} else if ch == inStr {
				inStr = 0
			}
			continue
		}
		switch ch {
		case '"', '\'', '`':
			inStr = ch
		case '(', '[', '{':
			depth++
		case ')', ']', '}':
			depth--
		}
		if depth == 0 && strings.HasPrefix(s[i:], sep) {
			// make sure "==>" is not matched inside "<==>"
			if sep == "==>" && i > 0 && s[i-1] == '<' {
				continue
			}
			out = append(out, s[last:i])
			last = i + len(sep)
			i += len(sep) - 1
		}
	}
	out = append(out, s[last:])
	return out
}

// parseSpecExpr parses a contract expression: Go expression syntax plus the
// infix operators ==> (right assoc, below ||) and <==> (below ==>), at any
// parenthesis nesting level.
func parseSpecExpr(s string) (ast.Expr, error) {
	pre, err := rewriteImp(s)
	if err != nil {
		return nil, err
	}
	e, err := parser.ParseExpr(pre)
	if err != nil {
		return nil, fmt.Errorf("%v in %q", err, pre)
	}
	return e, nil
}

// rewriteImp rewrites a ==> b into imp(a, b), a <==> b into iff(a, b), recursively
// inside every parenthesised group.
func rewriteImp(s string) (string, error) {
	// first rewrite inside parenthesised groups
	var b strings.Builder
	i := 0
	for i < len(s) {
		ch := s[i]
		if ch == '"' || ch == '\'' || ch == '`' {
			j := i + 1
			for j < len(s) && s[j] != ch {
				if s[j] == '\\' {
					j++
				}
				j++
			}
			if j >= len(s) {
				return "", fmt.Errorf("unterminated literal in %q", s)
			}
			b.WriteString(s[i : j+1])
			i = j + 1
			continue
		}
		if ch == '(' || ch == '[' {
			closer := byte(')')
			if ch == '[' {
				closer = ']'
			}
			depth := 0
			j := i
			for ; j < len(s); j++ {
				if s[j] == '"' || s[j] == '\'' || s[j] == '`' {
					q := s[j]
					j++
					for j < len(s) && s[j] != q {
						if s[j] == '\\' {
							j++
						}
						j++
					}
					continue
				}
				if s[j] == '(' || s[j] == '[' {
					depth++
				} else if s[j] == ')' || s[j] == ']' {
					depth--
					if depth == 0 {
						break
					}
				}
			}
			if j >= len(s) || s[j] != closer {
				return "", fmt.Errorf("unbalanced parentheses in %q", s)
			}
			inner := s[i+1 : j]
			// argument lists: split at top-level commas, rewrite each
			parts := splitTop(inner, ",")
			for k, p := range parts {
				r, err := rewriteImp(p)
				if err != nil {
					return "", err
				}
				parts[k] = r
			}
			b.WriteByte(ch)
			b.WriteString(strings.Join(parts, ","))
			b.WriteByte(closer)
			i = j + 1
			continue
		}
		b.WriteByte(ch)
		i++
	}
	t := b.String()
	if ps := splitTop(t, "<==>"); len(ps) > 1 {
		if len(ps) != 2 {
			return "", fmt.Errorf("chained <==> in %q", s)
		}
		l, err := rewriteImp(ps[0])
		if err != nil {
			return "", err
		}
		r, err := rewriteImp(ps[1])
		if err != nil {
			return "", err
		}
		return "iff(" + l + ", " + r + ")", nil
	}
	if ps := splitTop(t, "==>"); len(ps) > 1 {
		// right associative
		r := ps[len(ps)-1]
		for k := len(ps) - 2; k >= 0; k-- {
			r = "imp(" + ps[k] + ", " + r + ")"
		}
		return r, nil
	}
	return t, nil
}

// ParseContractFile reads //@ lines. defaultPkg is the import path for repo files.
func ParseContractFile(path, defaultPkg string) ([]*Contract, error) {
	f, err := os.Open(path)
	if err != nil {
		return nil, err
	}
	defer f.Close()
	var out []*Contract
	var cur *Contract
	pkg := defaultPkg
	gn := 0
	type pending struct {
		kw   string
		rest string
		line int
	}
	var pend *pending
	flush := func() error {
		if pend == nil {
			return nil
		}
		p := pend
		pend = nil
		if cur == nil {
			return fmt.Errorf("%s:%d: clause outside func", path, p.line)
		}
		return cur.addClause(p.kw, strings.TrimSpace(p.rest), path, p.line)
	}
	sc := bufio.NewScanner(f)
	sc.Buffer(make([]byte, 1<<20), 1<<20)
	ln := 0
	for sc.Scan() {
		ln++
		line := strings.TrimSpace(sc.Text())
		if !strings.HasPrefix(line, "//@") {
			continue
		}
		body := strings.TrimSpace(line[3:])
		if body == "" {
			continue
		}
		// strip trailing comment  " // ..."
		if i := strings.Index(body, " // "); i >= 0 {
			body = strings.TrimSpace(body[:i])
		}
		word := body
		rest := ""
		if i := strings.IndexAny(body, " \t"); i >= 0 {
			word, rest = body[:i], strings.TrimSpace(body[i+1:])
		}
		if !clauseKW[word] {
			if pend == nil {
				return nil, fmt.Errorf("%s:%d: continuation line without clause: %s", path, ln, body)
			}
			pend.rest += " " + body
			continue
		}
		if err := flush(); err != nil {
			return nil, err
		}
		switch word {
		case "pkg":
			pkg = rest
		case "global":
			// global EXPR : invariant over package-level variables that are assigned only by
			// the package initialiser (checked syntactically); assumed at every function entry
			gn++
			gc := &Contract{Pkg: pkg, Name: fmt.Sprintf("global %s#%d", filepath.Base(path), gn), Loops: map[int]*LoopSpec{}, Uses: map[string]bool{}, File: path, Line: ln, IsPred: true, IsGlobal: true}
			cur = gc
			out = append(out, cur)
			pend = &pending{kw: "predbody", rest: rest, line: ln}
		case "pred":
			// pred NAME(p1, p2) = EXPR   (macro, expanded at use)
			eq := strings.Index(rest, "=")
			lp := strings.Index(rest, "(")
			rp := strings.Index(rest, ")")
			if eq < 0 || lp < 0 || rp < lp || eq < rp {
				return nil, fmt.Errorf("%s:%d: bad pred definition", path, ln)
			}
			pc := &Contract{Pkg: pkg, Name: "pred " + strings.TrimSpace(rest[:lp]), Loops: map[int]*LoopSpec{}, Uses: map[string]bool{}, File: path, Line: ln, IsPred: true}
			for _, a := range strings.Split(rest[lp+1:rp], ",") {
				if a = strings.TrimSpace(a); a != "" {
					pc.PredParams = append(pc.PredParams, strings.Fields(a)[0])
				}
			}
			cur = pc
			out = append(out, cur)
			pend = &pending{kw: "predbody", rest: strings.TrimSpace(rest[eq+1:]), line: ln}
		case "extern":
			// extern func NAME
			// extern refine func NAME: additional ensures for an extern contract defined in
			// another file (e.g. what a reflection-driven decoder guarantees for one
			// destination type); merged into the base contract after loading
			refine := false
			if strings.HasPrefix(rest, "refine ") {
				refine = true
				rest = strings.TrimSpace(strings.TrimPrefix(rest, "refine"))
			}
			r := strings.TrimSpace(strings.TrimPrefix(rest, "func"))
			cur = &Contract{Pkg: pkg, Name: r, Extern: true, Trusted: true, Refine: refine, Loops: map[int]*LoopSpec{}, Uses: map[string]bool{}, File: path, Line: ln}
			if i := strings.Index(r, "::"); refine && i > 0 {
				// refinement of a repo function's contract, named by its contract key
				cur.Pkg, cur.Name, cur.Extern = r[:i], r[i+2:], false
			}
			out = append(out, cur)
		case "func":
			cur = &Contract{Pkg: pkg, Name: rest, Loops: map[int]*LoopSpec{}, Uses: map[string]bool{}, File: path, Line: ln}
			out = append(out, cur)
		default:
			pend = &pending{kw: word, rest: rest, line: ln}
		}
	}
	if err := flush(); err != nil {
		return nil, err
	}
	return out, sc.Err()
}

func mkClause(text, path string, line int) (Clause, error) {
	tag := ""
	t := strings.TrimSpace(text)
	if strings.HasPrefix(t, "[") {
		if i := strings.Index(t, "]"); i > 0 {
			tag = t[1:i]
			t = strings.TrimSpace(t[i+1:])
		}
	}
	e, err := parseSpecExpr(t)
	if err != nil {
		return Clause{}, fmt.Errorf("%s:%d: %v", path, line, err)
	}
	return Clause{Text: t, Expr: e, Tag: tag}, nil
}

func (c *Contract) loop(k int) *LoopSpec {
	if c.Loops[k] == nil {
		c.Loops[k] = &LoopSpec{}
	}
	return c.Loops[k]
}

func (c *Contract) addClause(kw, rest, path string, line int) error {
	switch kw {
	case "requires", "ensures":
		cl, err := mkClause(rest, path, line)
		if err != nil {
			return err
		}
		if kw == "requires" {
			c.Requires = append(c.Requires, cl)
		} else {
			c.Ensures = append(c.Ensures, cl)
		}
	case "modifies":
		c.HasMod = true
		if rest == "all" {
			c.ModAll = true
			return nil
		}
		if rest == "nothing" || rest == "" {
			return nil
		}
		for _, p := range splitTop(rest, ",") {
			cl, err := mkClause(p, path, line)
			if err != nil {
				return err
			}
			c.Modifies = append(c.Modifies, cl)
		}
	case "predbody":
		cl, err := mkClause(rest, path, line)
		if err != nil {
			return err
		}
		c.PredBody = &cl
	case "lemma", "lemma_ret":
		cl, err := mkClause(rest, path, line)
		if err != nil {
			return err
		}
		if kw == "lemma" {
			c.Lemmas = append(c.Lemmas, cl)
		} else {
			c.LemmasRet = append(c.LemmasRet, cl)
		}
	case "claims":
		c.Claims = append(c.Claims, strings.Fields(rest)...)
	case "split":
		cl, err := mkClause(rest, path, line)
		if err != nil {
			return err
		}
		c.Splits = append(c.Splits, cl)
	case "assume_pure":
		c.AssumePure = append(c.AssumePure, strings.TrimSpace(rest))
	case "assume_nopanic":
		// assume_nopanic <substring of callee description>: calls without contract matching it
		// are assumed not to panic (listed as an assumption in the evidence)
		c.AssumeNoPanic = append(c.AssumeNoPanic, strings.TrimSpace(rest))
	case "nopanic":
	case "maypanic":
		c.MayPanic = true
	case "panics_when":
		cl, err := mkClause(rest, path, line)
		if err != nil {
			return err
		}
		c.PanicsWhen = &cl
	case "trusted":
		c.Trusted = true
	case "abstract":
		c.Abstract = true
	case "pure":
		c.Pure = true
		c.NoAlloc = true
	case "noalloc":
		c.NoAlloc = true
	case "mayalloc":
		c.MayAlloc = true
	case "terminates":
		c.Terminates = true
	case "uses":
		for _, u := range strings.Fields(rest) {
			c.Uses[u] = true
		}
	case "unreachable":
		for _, u := range strings.Fields(rest) {
			n, err := strconv.Atoi(u)
			if err != nil {
				return fmt.Errorf("%s:%d: bad block index %q", path, line, u)
			}
			c.Unreach = append(c.Unreach, n)
		}
	case "decreases":
		cl, err := mkClause(rest, path, line)
		if err != nil {
			return err
		}
		c.Decreases = &cl
	case "alloc":
		r := strings.TrimSpace(strings.TrimPrefix(strings.TrimSpace(rest), "<="))
		cl, err := mkClause(r, path, line)
		if err != nil {
			return err
		}
		c.AllocBound = &cl
	case "loop":
		// loop <k> invariant|decreases|modifies <expr>
		fs := strings.Fields(rest)
		if len(fs) < 2 {
			return fmt.Errorf("%s:%d: bad loop clause", path, line)
		}
		k, err := strconv.Atoi(fs[0])
		if err != nil {
			return fmt.Errorf("%s:%d: bad loop ordinal %q", path, line, fs[0])
		}
		what := fs[1]
		ex := strings.TrimSpace(strings.TrimPrefix(strings.TrimSpace(strings.TrimPrefix(rest, fs[0])), what))
		switch what {
		case "invariant":
			cl, err := mkClause(ex, path, line)
			if err != nil {
				return err
			}
			c.loop(k).Invariants = append(c.loop(k).Invariants, cl)
		case "lemma":
			cl, err := mkClause(ex, path, line)
			if err != nil {
				return err
			}
			c.loop(k).Lemmas = append(c.loop(k).Lemmas, cl)
		case "decreases":
			cl, err := mkClause(ex, path, line)
			if err != nil {
				return err
			}
			c.loop(k).Decreases = &cl
		case "modifies":
			c.loop(k).HasMod = true
			if ex != "nothing" && ex != "" {
				for _, p := range splitTop(ex, ",") {
					cl, err := mkClause(p, path, line)
					if err != nil {
						return err
					}
					c.loop(k).Modifies = append(c.loop(k).Modifies, cl)
				}
			}
		default:
			return fmt.Errorf("%s:%d: unknown loop clause %q", path, line, what)
		}
	case "at", "after":
		// at call <callee>[#k] assert <expr>   /   after call <callee>[#k] assert <expr>
		fs := strings.Fields(rest)
		if len(fs) < 4 || fs[0] != "call" {
			return fmt.Errorf("%s:%d: bad at clause", path, line)
		}
		callee := fs[1]
		nth := 0
		if i := strings.LastIndex(callee, "#"); i > 0 {
			n, err := strconv.Atoi(callee[i+1:])
			if err == nil {
				nth = n
				callee = callee[:i]
			}
		}
		idx := strings.Index(rest, " assert ")
		if idx < 0 {
			return fmt.Errorf("%s:%d: at clause without assert", path, line)
		}
		cl, err := mkClause(rest[idx+8:], path, line)
		if err != nil {
			return err
		}
		c.At = append(c.At, AtAssert{Callee: callee, Nth: nth, C: cl, After: kw == "after"})
	}
	return nil
}

// LoadContracts gathers contracts for the given repo package dirs and extern dir.
func LoadContracts(repo string, pkgDirs map[string]string, externDir string) (map[string]*Contract, error) {
	out := map[string]*Contract{}
	var refines []*Contract
	add := func(cs []*Contract) error {
		for _, c := range cs {
			if c.Refine {
				refines = append(refines, c)
				continue
			}
			key := c.Key()
			if prev, dup := out[key]; dup {
				// identical pred/global macros may be repeated across files of one package;
				// anything else is reported (check treats it as a machinery error)
				if c.IsPred && prev.IsPred && prev.PredBody != nil && c.PredBody != nil && prev.PredBody.Text == c.PredBody.Text {
					continue
				}
				contractWarnings = append(contractWarnings, fmt.Sprintf("%s:%d: duplicate contract for %s (first at %s:%d kept)", c.File, c.Line, key, prev.File, prev.Line))
				continue
			}
			out[key] = c
		}
		return nil
	}
	for imp, dir := range pkgDirs {
		m, _ := filepath.Glob(filepath.Join(dir, "zz_verif_contracts*.go"))
		for _, f := range m {
			cs, err := ParseContractFile(f, imp)
			if err != nil {
				return nil, err
			}
			if err := add(cs); err != nil {
				return nil, err
			}
		}
	}
	m, _ := filepath.Glob(filepath.Join(externDir, "*.contracts"))
	for _, f := range m {
		cs, err := ParseContractFile(f, "")
		if err != nil {
			return nil, err
		}
		if err := add(cs); err != nil {
			return nil, err
		}
	}
	for _, r := range refines {
		base := out[r.Key()]
		if base != nil && base.ModAll && !base.Extern && r.HasMod && !r.ModAll {
			// assumed frame for callers of a proved `modifies all` contract
			base.CallMods = r.Modifies
			if len(base.CallMods) == 0 {
				base.CallMods = []Clause{}
			}
			base.CallRequires = r.Requires
			for _, e := range r.Ensures {
				e.AssumedOnly = true
				base.Ensures = append(base.Ensures, e)
			}
			continue
		}
		if base != nil && (len(r.Requires) > 0 || r.ModAll) {
			contractWarnings = append(contractWarnings, fmt.Sprintf("%s:%d: extern refine of %s may only add ensures (and modifies ghost.<relation>)", r.File, r.Line, r.Name))
			continue
		}
		if base == nil {
			if r.Extern {
				contractWarnings = append(contractWarnings, fmt.Sprintf("%s:%d: extern refine of %s: no extern contract with that name", r.File, r.Line, r.Name))
				continue
			}
			// a repo function without a contract of its own: the refinement is its (assumed)
			// contract when its package is loaded, and is ignored otherwise
			out[r.Key()] = r
			continue
		}
		// merged into an existing contract: only ghost relations may be added to its frame
		// (the standalone form above is a complete assumed contract and states its own frame)
		var mods []Clause
		for _, m := range r.Modifies {
			for _, part := range splitTop(m.Text, ",") {
				part = strings.TrimSpace(part)
				if !strings.HasPrefix(part, "ghost.") {
					continue
				}
				if cl, err := mkClause(part, r.File, r.Line); err == nil {
					mods = append(mods, cl)
				}
			}
		}
		r.Modifies = mods
		for _, e := range r.Ensures {
			if !base.Extern {
				e.AssumedOnly = true
			}
			base.Ensures = append(base.Ensures, e)
		}
		base.Modifies = append(base.Modifies, r.Modifies...)
	}
	return out, nil
}

func (c *Contract) Key() string {
	if c.Extern {
		return c.Name
	}
	return c.Pkg + "::" + c.Name
}

// forCall: the contract as callers see it (see CallMods).
func (c *Contract) forCall() *Contract {
	if c == nil || c.CallMods == nil || !c.ModAll {
		return c
	}
	if c.callView == nil {
		v := *c
		v.ModAll = false
		v.Modifies = c.CallMods
		v.Requires = append(append([]Clause{}, c.Requires...), c.CallRequires...)
		v.callView = nil
		c.callView = &v
	}
	return c.callView
}
