package main

// VC generation: go/ssa function -> passive DAG -> SMT-LIB obligations.

import (
	"fmt"
	"go/constant"
	"go/token"
	"go/types"
	"sort"
	"strings"

	"golang.org/x/tools/go/ssa"
)

type Obligation struct {
	Name   string
	Class  string
	Prefix int    // number of lines of fn.out included
	Guard  string // reach condition
	Goal   string // must hold
	Descr  string
	Pos    token.Pos
	Fn     *FnVC
	Extra  []string // extra declarations local to this obligation (skolems)
	Raw    string   // complete SMT text (lemma obligations)
	skGoal  string   // goal after skolemisation of its universal quantifiers (memo)
	skDecls []string
	// result
	Verdict string
	Solver  string
	Time    float64
	Model   string
	Output  string
}

type HeapState map[string]string

type lazySym struct {
	emit func()
	done bool
}

type loopInfo struct {
	header  *ssa.BasicBlock
	blocks  map[*ssa.BasicBlock]bool
	latches []*ssa.BasicBlock
	ordinal int
	spec    *LoopSpec
	// state captured at the header
	entryHeap HeapState // merged heap on entry edges
	headHeap  HeapState
	entryCond string
	phiEntry  map[*ssa.Phi]string
	autoInv   []autoInv
	writes    map[string]bool
	allocs    bool
	variant0  string // variant value at header (for decreases)
	decr      *Clause
	autoVar   func(env map[*ssa.Phi]string) string
}

type autoInv struct {
	descr string
	mk    func(phis map[*ssa.Phi]string) string
}

type retSite struct {
	b     *ssa.BasicBlock
	vals  []string
	heap  HeapState
	reach string
}

type FnVC struct {
	P   *Prog
	ifaceAsserted []types.Type    // interface types this function asserts values to
	implKnown     map[string]bool // implements-facts already emitted ("typeid:ifaceid")
	fn  *ssa.Function
	ct  *Contract
	te  *TypeEnv
	out []string

	vals    map[ssa.Value]string
	tuples  map[ssa.Value][]string
	reach   map[*ssa.BasicBlock]string
	heapOut map[*ssa.BasicBlock]HeapState
	cur     HeapState
	curB    *ssa.BasicBlock
	lazy    map[string]*lazySym
	obls    []*Obligation
	nfresh  int
	classN  map[string]int
	loops   map[*ssa.BasicBlock]*loopInfo
	latchOf map[*ssa.BasicBlock][]*loopInfo
	order   []*ssa.BasicBlock
	rets    []retSite
	globals map[*ssa.Global]int
	fnAlloc bool
	havocs  []string
	debug   map[types.Object][]*ssa.DebugRef
	entry   HeapState
	errs    []string
	closures map[ssa.Value]*ssa.MakeClosure
	callN   map[string]int
	retVals []string
	retHeap HeapState
	retReach string
	abstractFailed bool
	specFiles map[string]bool
	lemmasUsed map[string]bool
	invSeen map[string]bool
	trustedUsed map[string]bool
	entryCheck *Obligation
	splitNames []string // see `split`
	rangeLocs  map[*ssa.Range]string // ghost byte position of string range iterators
}

func (c *FnVC) emit(s string)            { c.out = append(c.out, s) }
func (c *FnVC) assume(t string)          { if t != "true" { c.emit("(assert " + t + ")") } }
func (c *FnVC) comment(s string)         { c.emit("; " + strings.ReplaceAll(s, "\n", " ")) }
func (c *FnVC) freshName(p string) string { c.nfresh++; return fmt.Sprintf("%s_%d", p, c.nfresh) }
func (c *FnVC) decl(name, sort string)   { c.emit(fmt.Sprintf("(declare-const %s %s)", name, sort)) }
func (c *FnVC) def(name, sort, t string) { c.emit(fmt.Sprintf("(define-fun %s () %s %s)", name, sort, t)) }
func (c *FnVC) errorf(f string, a ...any) { c.errs = append(c.errs, fmt.Sprintf(f, a...)) }

func (c *FnVC) freshConst(p, sort string) string {
	n := c.freshName(p)
	c.decl(n, sort)
	return n
}

// ---- heap components

func compSort(c *FnVC, k string) string {
	if k == "alloc" {
		return "Int"
	}
	if s, ok := kindSort[k]; ok {
		return "(Array Loc " + s + ")"
	}
	if mi := c.te.mapComp(k); mi != "" {
		return mi
	}
	panic("unknown heap component " + k)
}

func (c *FnVC) compZero(k string) string {
	if z, ok := kindZero[k]; ok {
		return z
	}
	return c.te.mapCompZero(k)
}

// H returns the current symbol of heap component k (materialising lazy definitions).
func (c *FnVC) H(k string) string { return c.hOf(c.cur, k) }

func (c *FnVC) hOf(st HeapState, k string) string {
	n, ok := st[k]
	if !ok {
		n = "H_" + sanitize(k) + "_0"
		if _, seen := c.lazy[n]; !seen {
			c.lazy[n] = &lazySym{emit: func() { c.declInitial(k, n) }}
		}
	}
	c.materialize(n)
	return n
}

func (c *FnVC) materialize(n string) {
	if l, ok := c.lazy[n]; ok && !l.done {
		l.done = true
		l.emit()
	}
}

func sanitize(s string) string {
	r := strings.NewReplacer(":", "_", "(", "_", ")", "_", " ", "_", "*", "p", "[", "_", "]", "_", ".", "_", "/", "_", "{", "_", "}", "_", ",", "_", ";", "_")
	return r.Replace(s)
}

func (c *FnVC) declInitial(k, n string) {
	c.decl(n, compSort(c, k))
	if k == "alloc" {
		c.assume("(> " + n + " 0)")
		return
	}
	if c.fnAlloc {
		if z := c.compZero(k); z != "" {
			a0 := c.hOf(HeapState{}, "alloc")
			c.assume(fmt.Sprintf("(forall ((l Loc)) (! (=> (>= (base l) %s) (= (select %s l) %s)) :pattern ((select %s l))))", a0, n, z, n))
		}
	}
}

// setH defines a new version of component k.
func (c *FnVC) setH(k, term string) {
	n := c.freshName("H_" + sanitize(k))
	c.def(n, compSort(c, k), term)
	c.cur[k] = n
}

func (c *FnVC) allocTerm() string { return c.H("alloc") }

// bumpAlloc returns the base of a fresh object.
func (c *FnVC) bumpAlloc() string {
	a := c.allocTerm()
	c.setH("alloc", "(+ "+a+" 1)")
	return a
}

func copyHeap(h HeapState) HeapState {
	n := HeapState{}
	for k, v := range h {
		n[k] = v
	}
	return n
}

// mergeHeaps builds the heap at a join from (cond, heap) pairs.
func (c *FnVC) mergeHeaps(conds []string, hs []HeapState) HeapState {
	if len(hs) == 1 {
		return copyHeap(hs[0])
	}
	keys := map[string]bool{}
	for _, h := range hs {
		for k := range h {
			keys[k] = true
		}
	}
	res := HeapState{}
	for _, k := range sortedKeys(keys) {
		same := true
		first, firstOK := hs[0][k]
		for _, h := range hs[1:] {
			v, ok := h[k]
			if ok != firstOK || v != first {
				same = false
			}
		}
		if same {
			if firstOK {
				res[k] = first
			}
			continue
		}
		n := c.freshName("H_" + sanitize(k) + "_m")
		kk := k
		hsCopy := hs
		condsCopy := conds
		c.lazy[n] = &lazySym{emit: func() {
			t := c.hOf(hsCopy[len(hsCopy)-1], kk)
			for i := len(hsCopy) - 2; i >= 0; i-- {
				t = ite(condsCopy[i], c.hOf(hsCopy[i], kk), t)
			}
			c.def(n, compSort(c, kk), t)
		}}
		res[k] = n
	}
	return res
}

// ---- values

func (c *FnVC) globalLoc(g *ssa.Global) string {
	id, ok := c.globals[g]
	if !ok {
		id = c.P.globalID(g)
		c.globals[g] = id
	}
	return fmt.Sprintf("(mkLoc (- %d) PNil)", id)
}

func (c *FnVC) constTerm(k *ssa.Const) string {
	t := k.Type()
	if k.Value == nil {
		z := c.te.zeroOf(t)
		if z == "" {
			return c.freshConst("zero", c.te.sortOf(t))
		}
		return z
	}
	if w, _, ok := c.te.intWidth(t); ok {
		if v, exact := constant.Int64Val(constant.ToInt(k.Value)); exact {
			return bv(w, uint64(v))
		}
		if v, exact := constant.Uint64Val(constant.ToInt(k.Value)); exact {
			return bv(w, v)
		}
	}
	switch k.Value.Kind() {
	case constant.Bool:
		if constant.BoolVal(k.Value) {
			return "true"
		}
		return "false"
	case constant.String:
		return strLit(constant.StringVal(k.Value))
	}
	return c.freshConst("const", c.te.sortOf(t))
}

func (c *FnVC) v(x ssa.Value) string {
	if t, ok := c.vals[x]; ok {
		return t
	}
	switch x := x.(type) {
	case *ssa.Const:
		return c.constTerm(x)
	case *ssa.Global:
		return c.globalLoc(x)
	case *ssa.Function:
		return fmt.Sprintf("(mkFn %d NullLoc)", c.P.funcID(x))
	case *ssa.Builtin:
		return "NilFn"
	}
	// not yet defined (should not happen in RPO except through back edges)
	n := c.freshConst("undef_"+sanitize(x.Name()), c.te.sortOf(x.Type()))
	c.vals[x] = n
	return n
}

func (c *FnVC) setVal(x ssa.Value, term string) string {
	n := "v_" + sanitize(x.Name())
	if _, dup := c.vals[x]; dup {
		n = c.freshName(n)
	}
	c.def(n, c.te.sortOf(x.Type()), term)
	c.vals[x] = n
	return n
}

func (c *FnVC) havocVal(x ssa.Value, why string) string {
	n := "v_" + sanitize(x.Name())
	if tup, ok := x.Type().(*types.Tuple); ok {
		var parts []string
		for i := 0; i < tup.Len(); i++ {
			p := c.freshConst(n+"_"+fmt.Sprint(i), c.te.sortOf(tup.At(i).Type()))
			c.assumeTypeInv(p, tup.At(i).Type())
			parts = append(parts, p)
		}
		c.tuples[x] = parts
		return ""
	}
	c.decl(n, c.te.sortOf(x.Type()))
	c.vals[x] = n
	c.assumeTypeInv(n, x.Type())
	if why != "" {
		c.havocs = append(c.havocs, why)
	}
	return n
}

// assumeTypeInv assumes Go's type-safety invariants of a value: slices well formed,
// pointers refer to allocated objects.
func (c *FnVC) assumeTypeInv(term string, t types.Type) {
	switch u := t.Underlying().(type) {
	case *types.Slice:
		c.assume("(wf " + term + ")")
		if c.fnAlloc {
			c.assume(fmt.Sprintf("(< (base (s_arr %s)) %s)", term, c.allocTerm()))
		}
	case *types.Basic:
		if u.Kind() == types.String {
			c.assume("(wfstr " + term + ")")
		}
	case *types.Pointer, *types.Map, *types.Chan:
		c.assume("(okptr " + term + ")")
		if c.fnAlloc {
			c.assume(fmt.Sprintf("(< (base %s) %s)", term, c.allocTerm()))
		}
	case *types.Struct:
		si := c.te.structOf(u)
		for i := 0; i < u.NumFields(); i++ {
			ft := u.Field(i).Type()
			switch ft.Underlying().(type) {
			case *types.Slice, *types.Pointer, *types.Map, *types.Struct, *types.Basic:
				c.assumeTypeInv(fmt.Sprintf("(%s_f%d %s)", si.name, i, term), ft)
			}
		}
	}
}

// ---- obligations

func (c *FnVC) oblige(class, goal string, b *ssa.BasicBlock, descr string, pos token.Pos) *Obligation {
	c.classN[class]++
	name := fmt.Sprintf("%s#%s.%d", c.fnName(), class, c.classN[class])
	guard := "true"
	if b != nil {
		guard = c.reach[b]
	}
	o := &Obligation{Name: name, Class: class, Prefix: len(c.out), Guard: guard, Goal: goal, Descr: descr, Pos: pos, Fn: c}
	if goal != "true" {
		c.obls = append(c.obls, o)
	} else {
		c.classN[class]--
		return nil
	}
	c.comment("obligation " + name + " : " + descr)
	c.assume(imp(guard, goal))
	return o
}

// obligeNamed is like oblige with an explicit name suffix instead of an ordinal.
func (c *FnVC) obligeNamed(class, suffix, goal, guard, descr string, extra []string) *Obligation {
	name := fmt.Sprintf("%s#%s", c.fnName(), suffix)
	o := &Obligation{Name: name, Class: class, Prefix: len(c.out), Guard: guard, Goal: goal, Descr: descr, Fn: c, Extra: extra}
	c.obls = append(c.obls, o)
	return o
}

func (c *FnVC) fnName() string {
	return c.fn.Pkg.Pkg.Name() + "." + c.fn.RelString(c.fn.Pkg.Pkg)
}

// ---- memory access

func (c *FnVC) load(t types.Type, loc string) string {
	switch u := t.Underlying().(type) {
	case *types.Struct:
		si := c.te.structOf(u)
		if u.NumFields() == 0 {
			return "mk" + si.name
		}
		var parts []string
		for i := 0; i < u.NumFields(); i++ {
			parts = append(parts, c.load(u.Field(i).Type(), fmt.Sprintf("(fld %s %d)", loc, i)))
		}
		return fmt.Sprintf("(mk%s %s)", si.name, strings.Join(parts, " "))
	case *types.Array:
		n := c.freshConst("arrval", c.te.sortOf(t))
		c.assume(fmt.Sprintf("(forall ((ai (_ BitVec 64))) (! (= (select %s ai) %s) :pattern ((select %s ai))))", n, c.load(u.Elem(), fmt.Sprintf("(aelem %s ai)", loc)), n))
		return n
	}
	k := c.te.kindOf(t)
	return fmt.Sprintf("(select %s %s)", c.H(k), loc)
}

func (c *FnVC) store(t types.Type, loc, val string) {
	switch u := t.Underlying().(type) {
	case *types.Struct:
		si := c.te.structOf(u)
		for i := 0; i < u.NumFields(); i++ {
			c.store(u.Field(i).Type(), fmt.Sprintf("(fld %s %d)", loc, i), fmt.Sprintf("(%s_f%d %s)", si.name, i, val))
		}
		return
	case *types.Array:
		// quantified update for single-leaf element arrays
		k := c.te.kindOf(u.Elem())
		if k == "" {
			c.havocs = append(c.havocs, "store of array of aggregates")
			ks := map[string]bool{}
			c.te.leafKinds(t, ks)
			for kk := range ks {
				c.havocComp(kk, "true", "", "")
			}
			return
		}
		old := c.H(k)
		n := c.freshName("H_" + k)
		c.decl(n, compSort(c, k))
		c.assume(fmt.Sprintf("(forall ((l Loc)) (! (= (select %s l) (ite (and (= (base l) (base %s)) ((_ is PE) (path l)) (= (pe_p (path l)) (path %s)) (bvult (pe_i (path l)) %s)) (select %s (pe_i (path l))) (select %s l))) :pattern ((select %s l))))",
			n, loc, loc, bv64(u.Len()), val, old, n))
		c.cur[k] = n
		return
	}
	k := c.te.kindOf(t)
	c.setH(k, fmt.Sprintf("(store %s %s %s)", c.H(k), loc, val))
}

// havocComp replaces component k by a fresh one; locations l with base < allocPre
// that do not satisfy inW(l) keep their value (inW is a term over the variable "l";
// "true" = nothing is preserved). allocPost, if non-empty, is the allocation counter
// after the effect: everything at or beyond it is still zero.
func (c *FnVC) havocComp(k, inW, allocPre, allocPost string) {
	if k == "alloc" {
		old := c.H("alloc")
		n := c.freshConst("H_alloc", "Int")
		c.assume(fmt.Sprintf("(>= %s %s)", n, old))
		c.cur[k] = n
		return
	}
	if isRelComp(k) {
		// a ghost relation is either untouched or changes as a whole
		if inW == "false" {
			return
		}
		c.H(k) // make sure the previous version exists (declared lazily)
		n := c.freshName("H_" + sanitize(k))
		c.lazy[n] = &lazySym{emit: func() { c.decl(n, compSort(c, k)) }}
		c.cur[k] = n
		return
	}
	prev, hadPrev := c.cur[k]
	n := c.freshName("H_" + sanitize(k))
	st := HeapState{}
	if hadPrev {
		st[k] = prev
	}
	c.lazy[n] = &lazySym{emit: func() {
		old := c.hOf(st, k)
		c.decl(n, compSort(c, k))
		if inW != "true" {
			cond := not(inW)
			if allocPre != "" {
				cond = and(fmt.Sprintf("(< (base l) %s)", allocPre), cond)
			}
			c.assume(fmt.Sprintf("(forall ((l Loc)) (! (=> %s (= (select %s l) (select %s l))) :pattern ((select %s l))))", cond, n, old, n))
		}
		if allocPost != "" && c.fnAlloc {
			if z := c.compZero(k); z != "" {
				c.assume(fmt.Sprintf("(forall ((l Loc)) (! (=> (>= (base l) %s) (= (select %s l) %s)) :pattern ((select %s l))))", allocPost, n, z, n))
			}
		}
	}}
	c.cur[k] = n
}

func (c *FnVC) toI64(x ssa.Value) string {
	t := c.v(x)
	w, signed, ok := c.te.intWidth(x.Type())
	if !ok || w == 64 {
		return t
	}
	if signed {
		return fmt.Sprintf("((_ sign_extend %d) %s)", 64-w, t)
	}
	return fmt.Sprintf("((_ zero_extend %d) %s)", 64-w, t)
}

func (c *FnVC) nilCheck(p ssa.Value, in ssa.Instruction) {
	if _, isAlloc := p.(*ssa.Alloc); isAlloc {
		return
	}
	if _, isG := p.(*ssa.Global); isG {
		return
	}
	if _, isFV := p.(*ssa.FreeVar); isFV {
		return // the address of a captured variable is never nil
	}
	if _, isFA := p.(*ssa.FieldAddr); isFA {
		return // derived from a checked pointer
	}
	if _, isIA := p.(*ssa.IndexAddr); isIA {
		return
	}
	c.oblige("nil", fmt.Sprintf("(not (= %s NullLoc))", c.v(p)), in.Block(), "nil dereference of "+p.Name()+" "+c.srcAt(in.Pos()), in.Pos())
}

func (c *FnVC) srcAt(p token.Pos) string {
	if !p.IsValid() {
		return ""
	}
	pos := c.P.prog.Fset.Position(p)
	return fmt.Sprintf("@%s:%d", shortFile(pos.Filename), pos.Line)
}

func shortFile(f string) string {
	return strings.TrimPrefix(f, "/repo/")
}

// ---- CFG preparation

func (c *FnVC) prepareCFG() {
	fn := c.fn
	// reachable blocks, back edges via dominance
	seen := map[*ssa.BasicBlock]bool{}
	var post []*ssa.BasicBlock
	var dfs func(b *ssa.BasicBlock)
	isBack := func(u, h *ssa.BasicBlock) bool { return h.Dominates(u) }
	dfs = func(b *ssa.BasicBlock) {
		seen[b] = true
		for _, s := range b.Succs {
			if isBack(b, s) {
				continue
			}
			if !seen[s] {
				dfs(s)
			}
		}
		post = append(post, b)
	}
	dfs(fn.Blocks[0])
	for i := len(post) - 1; i >= 0; i-- {
		c.order = append(c.order, post[i])
	}
	// loops
	for _, u := range c.order {
		for _, h := range u.Succs {
			if isBack(u, h) {
				li := c.loops[h]
				if li == nil {
					li = &loopInfo{header: h, blocks: map[*ssa.BasicBlock]bool{h: true}}
					c.loops[h] = li
				}
				li.latches = append(li.latches, u)
				c.latchOf[u] = append(c.latchOf[u], li)
				// natural loop body
				var stack []*ssa.BasicBlock
				if !li.blocks[u] {
					li.blocks[u] = true
					stack = append(stack, u)
				}
				for len(stack) > 0 {
					x := stack[len(stack)-1]
					stack = stack[:len(stack)-1]
					for _, p := range x.Preds {
						if !li.blocks[p] && seen[p] {
							li.blocks[p] = true
							stack = append(stack, p)
						}
					}
				}
			}
		}
	}
	// ordinals in source order
	var hs []*ssa.BasicBlock
	for h := range c.loops {
		hs = append(hs, h)
	}
	sort.Slice(hs, func(i, j int) bool { return c.loopPos(hs[i]) < c.loopPos(hs[j]) })
	for i, h := range hs {
		c.loops[h].ordinal = i + 1
		if c.ct != nil {
			c.loops[h].spec = c.ct.Loops[i+1]
		}
	}
	if c.ct != nil {
		for k := range c.ct.Loops {
			if k < 1 || k > len(hs) {
				c.errorf("contract for %s names loop %d but the function has %d loops", c.fnName(), k, len(hs))
			}
		}
	}
}

// loopPos approximates the source position of the loop statement owning header h.
func (c *FnVC) loopPos(h *ssa.BasicBlock) token.Pos {
	best := token.Pos(1 << 40)
	li := c.loops[h]
	for b := range li.blocks {
		for _, in := range b.Instrs {
			// phis and allocs carry the position of the variable's declaration, which may
			// precede the loop (or be shared by two loops): not a position inside the loop
			switch in.(type) {
			case *ssa.Phi, *ssa.Alloc:
				continue
			}
			if p := in.Pos(); p.IsValid() && p < best {
				best = p
			}
			if d, ok := in.(*ssa.DebugRef); ok {
				if p := d.Expr.Pos(); p.IsValid() && p < best {
					best = p
				}
			}
		}
	}
	return best
}

func (c *FnVC) edgeCond(p *ssa.BasicBlock, succIdx int) string {
	r := c.reach[p]
	if len(p.Succs) == 2 {
		iff := p.Instrs[len(p.Instrs)-1].(*ssa.If)
		cond := c.v(iff.Cond)
		if p.Succs[0] == p.Succs[1] {
			return r
		}
		if succIdx == 0 {
			return and(r, cond)
		}
		return and(r, not(cond))
	}
	return r
}

func succIndex(p, b *ssa.BasicBlock, nth int) int {
	k := 0
	for i, s := range p.Succs {
		if s == b {
			if k == nth {
				return i
			}
			k++
		}
	}
	return -1
}

// ---- main driver

func (c *FnVC) run() {
	c.prepareCFG()
	if len(c.errs) > 0 {
		return
	}
	c.scanFunction()
	c.cur = HeapState{}
	c.entrySetup()
	inOrder := map[*ssa.BasicBlock]bool{}
	for _, b := range c.order {
		inOrder[b] = true
	}
	for _, b := range c.order {
		c.curB = b
		c.comment(fmt.Sprintf("---- block %d %s", b.Index, b.Comment))
		li := c.loops[b]
		// incoming forward edges
		var conds []string
		var heaps []HeapState
		var preds []*ssa.BasicBlock
		var predIdx []int // index into b.Preds
		occ := map[*ssa.BasicBlock]int{}
		for i, p := range b.Preds {
			if !inOrder[p] || b.Dominates(p) {
				if b.Dominates(p) {
					occ[p]++
				}
				continue
			}
			si := succIndex(p, b, occ[p])
			occ[p]++
			ec := c.edgeCond(p, si)
			en := c.freshName(fmt.Sprintf("edge_%d_%d", p.Index, b.Index))
			c.def(en, "Bool", ec)
			conds = append(conds, en)
			heaps = append(heaps, c.heapOut[p])
			preds = append(preds, p)
			predIdx = append(predIdx, i)
		}
		rn := fmt.Sprintf("reach_%d", b.Index)
		if b == c.fn.Blocks[0] {
			c.def(rn, "Bool", "true")
		} else {
			c.def(rn, "Bool", or(conds...))
			c.cur = c.mergeHeaps(conds, heaps)
		}
		c.reach[b] = rn
		// phis
		nphi := 0
		for _, in := range b.Instrs {
			phi, ok := in.(*ssa.Phi)
			if !ok {
				break
			}
			nphi++
			var t string
			for j := len(preds) - 1; j >= 0; j-- {
				ev := c.v(phi.Edges[predIdx[j]])
				if t == "" {
					t = ev
				} else {
					t = ite(conds[j], ev, t)
				}
			}
			if li != nil {
				if li.phiEntry == nil {
					li.phiEntry = map[*ssa.Phi]string{}
				}
				n := c.freshName("phi_entry_" + sanitize(phi.Name()))
				c.def(n, c.te.sortOf(phi.Type()), t)
				li.phiEntry[phi] = n
			} else {
				c.setVal(phi, t)
			}
		}
		if li != nil {
			c.loopHeader(li, rn)
		}
		for _, in := range b.Instrs[nphi:] {
			c.instr(in)
		}
		c.heapOut[b] = copyHeap(c.cur)
		for _, l := range c.latchOf[b] {
			c.loopLatch(l, b)
		}
	}
	c.finish()
}

// scanFunction precomputes whether the function allocates and registers map types.
func (c *FnVC) scanFunction() {
	for _, b := range c.fn.Blocks {
		for _, in := range b.Instrs {
			switch x := in.(type) {
			case *ssa.Alloc, *ssa.MakeSlice, *ssa.MakeMap, *ssa.MakeChan:
				c.fnAlloc = true
			case *ssa.MakeClosure:
				c.closures[x] = x
			case *ssa.Call:
				if bi, ok := x.Call.Value.(*ssa.Builtin); ok {
					if bi.Name() == "append" {
						c.fnAlloc = true
					}
				} else if f := x.Call.StaticCallee(); f != nil {
					if c.P.mayAlloc(f) {
						c.fnAlloc = true
					}
				} else {
					c.fnAlloc = true
				}
			case *ssa.Convert:
				// string<->[]byte conversions allocate
				if _, ok := x.Type().Underlying().(*types.Slice); ok {
					c.fnAlloc = true
				}
			case *ssa.DebugRef:
				if id, ok := x.Expr.(interface{ Pos() token.Pos }); ok && x.Object() != nil {
					_ = id
					c.debug[x.Object()] = append(c.debug[x.Object()], x)
				}
			}
			if v, ok := in.(ssa.Value); ok {
				if m, ok := v.Type().Underlying().(*types.Map); ok {
					c.te.mapOf(m)
				}
			}
		}
	}
	for _, p := range c.fn.Params {
		if m, ok := p.Type().Underlying().(*types.Map); ok {
			c.te.mapOf(m)
		}
	}
}

func (c *FnVC) entrySetup() {
	for _, p := range c.fn.Params {
		n := "p_" + sanitize(p.Name())
		c.decl(n, c.te.sortOf(p.Type()))
		c.vals[p] = n
	}
	for _, p := range c.fn.FreeVars {
		n := "fv_" + sanitize(p.Name())
		c.decl(n, c.te.sortOf(p.Type()))
		c.vals[p] = n
	}
	for _, p := range c.fn.Params {
		c.assumeTypeInv(c.vals[p], p.Type())
	}
	for _, p := range c.fn.FreeVars {
		c.assumeTypeInv(c.vals[p], p.Type())
	}
	c.entry = copyHeap(c.cur)
	if c.ct != nil {
		ev := c.newEval(c.fn, c.paramEnv(), c.cur, nil)
		for _, r := range c.ct.Requires {
			t, err := ev.boolExpr(r.Expr)
			if err != nil {
				c.errorf("%s: requires %q: %v", c.fnName(), r.Text, err)
				continue
			}
			c.comment("requires " + r.Text)
			c.assume(t)
		}
		c.assumeGlobalInvariants(ev)
		for _, l := range c.ct.Lemmas {
			t, err := ev.lemmaExpr(l.Expr)
			if err != nil {
				c.errorf("%s: lemma %q: %v", c.fnName(), l.Text, err)
				continue
			}
			c.assume(t)
		}
	}
	c.entry = copyHeap(c.cur)
	if c.ct != nil {
		// `split E`: case analysis over an entry-state condition. Every obligation is proved
		// under E and under !E separately (exhaustive, hence sound); each query then sees
		// one family of paths only (flushChild: ASN.1 vs TLS-style blocks).
		ev := c.newEval(c.fn, c.paramEnv(), c.cur, nil)
		for i, sp := range c.ct.Splits {
			t, err := ev.boolExpr(sp.Expr)
			if err != nil {
				c.errorf("%s: split %q: %v", c.fnName(), sp.Text, err)
				continue
			}
			n := fmt.Sprintf("split_%d", i+1)
			c.def(n, "Bool", t)
			c.splitNames = append(c.splitNames, n)
		}
	}
	if c.ct != nil {
		c.entryCheck = &Obligation{Name: c.fnName() + "#vacuity.entry", Class: "vacuity", Prefix: len(c.out), Guard: "true", Goal: "false", Descr: "requires and assumed invariants are satisfiable", Fn: c}
	}
}

func (c *FnVC) paramEnv() map[string]envVal {
	env := map[string]envVal{}
	for _, p := range c.fn.Params {
		env[p.Name()] = envVal{c.vals[p], p.Type()}
	}
	for _, p := range c.fn.FreeVars {
		env[p.Name()] = envVal{c.vals[p], p.Type()}
	}
	return env
}

// finish: postconditions, frame, termination bookkeeping.
func (c *FnVC) finish() {
	if len(c.rets) == 0 {
		return
	}
	var conds []string
	var heaps []HeapState
	for _, r := range c.rets {
		conds = append(conds, r.reach)
		heaps = append(heaps, r.heap)
	}
	c.curB = nil
	c.comment("---- return merge")
	c.cur = c.mergeHeaps(conds, heaps)
	reach := c.freshName("reach_ret")
	c.def(reach, "Bool", or(conds...))
	res := c.fn.Signature.Results()
	var rv []string
	for i := 0; i < res.Len(); i++ {
		t := c.rets[len(c.rets)-1].vals[i]
		for j := len(c.rets) - 2; j >= 0; j-- {
			t = ite(c.rets[j].reach, c.rets[j].vals[i], t)
		}
		n := c.freshName(fmt.Sprintf("ret%d", i))
		c.def(n, c.te.sortOf(res.At(i).Type()), t)
		rv = append(rv, n)
	}
	c.retVals = rv
	c.retHeap = copyHeap(c.cur)
	c.retReach = reach
	if c.ct == nil {
		return
	}
	env := c.paramEnv()
	c.bindResults(env, c.fn.Signature, rv)
	old := c.newEval(c.fn, c.paramEnv(), c.entry, nil)
	ev := c.newEval(c.fn, env, c.cur, old)
	for _, l := range c.ct.LemmasRet {
		t, err := ev.lemmaExpr(l.Expr)
		if err != nil {
			c.errorf("%s: lemma_ret %q: %v", c.fnName(), l.Text, err)
			continue
		}
		c.assume(t)
	}
	if c.ct.Uses["perreturn"] && len(c.rets) > 1 {
		// one obligation per postcondition conjunct and return site: smaller queries,
		// and the failing path is named
		for ri, r := range c.rets {
			renv := c.paramEnv()
			c.bindResults(renv, c.fn.Signature, r.vals)
			rev := c.newEval(c.fn, renv, r.heap, old)
			for i, e := range c.ct.Ensures {
				if e.AssumedOnly {
					continue
				}
				conj := splitConjDeep(e.Expr, 0)
				for j, cj := range conj {
					t, err := rev.boolExpr(cj)
					if err != nil {
						c.errorf("%s: ensures %q: %v", c.fnName(), e.Text, err)
						continue
					}
					suffix := fmt.Sprintf("ensures.%d", i+1)
					if e.Tag != "" {
						suffix = "ensures." + e.Tag
					}
					if len(conj) > 1 {
						suffix += fmt.Sprintf(".c%d", j+1)
					}
					suffix += fmt.Sprintf("@ret%d", ri+1)
					c.obligeNamed("ensures", suffix, t, r.reach, "postcondition at return "+fmt.Sprint(ri+1)+": "+exprString(cj), nil)
				}
			}
		}
		// frames per return as well: each query then carries one path's heap versions
		for ri, r := range c.rets {
			c.frameObligationsAt(r.heap, r.reach, fmt.Sprintf("@ret%d", ri+1))
		}
		return
	}
	for i, e := range c.ct.Ensures {
		if e.AssumedOnly {
			continue
		}
		conj := splitConjDeep(e.Expr, 0)
		for j, cj := range conj {
			t, err := ev.boolExpr(cj)
			if err != nil {
				c.errorf("%s: ensures %q: %v", c.fnName(), e.Text, err)
				continue
			}
			suffix := fmt.Sprintf("ensures.%d", i+1)
			if e.Tag != "" {
				suffix = "ensures." + e.Tag
			}
			if len(conj) > 1 {
				suffix += fmt.Sprintf(".c%d", j+1)
			}
			c.obligeNamed("ensures", suffix, t, reach, "postcondition: "+exprString(cj), nil)
		}
	}
	c.frameObligations(reach)
}

func (c *FnVC) bindResults(env map[string]envVal, sig *types.Signature, rv []string) {
	res := sig.Results()
	for i := 0; i < res.Len(); i++ {
		if i >= len(rv) {
			break
		}
		ev := envVal{rv[i], res.At(i).Type()}
		env[fmt.Sprintf("result%d", i)] = ev
		if nm := res.At(i).Name(); nm != "" && nm != "_" {
			if _, clash := env[nm]; !clash {
				env[nm] = ev
			}
		}
		if res.Len() == 1 {
			env["result"] = ev
		}
	}
}

// frameObligations: every heap component changed between entry and return may
// only differ at locations in the modifies set (for pre-existing objects).
func (c *FnVC) frameObligations(reach string) { c.frameObligationsAt(c.cur, reach, "") }

// frameObligationsAt: the frame obligations for the heap at one return (or the merged one).
func (c *FnVC) frameObligationsAt(heap HeapState, reach, suffix string) {
	if c.ct.ModAll {
		return
	}
	keys := map[string]bool{}
	for k := range heap {
		keys[k] = true
	}
	old := c.newEval(c.fn, c.paramEnv(), c.entry, nil)
	ms, err := old.modSet(c.ct.Modifies)
	if err != nil {
		c.errorf("%s: modifies: %v", c.fnName(), err)
		return
	}
	a0 := c.hOf(c.entry, "alloc")
	for _, k := range sortedKeys(keys) {
		if k == "alloc" {
			continue
		}
		e0, has0 := c.entry[k]
		if has0 && e0 == heap[k] {
			continue
		}
		hr := c.hOf(heap, k)
		h0 := c.hOf(c.entry, k)
		sk := c.freshName("fl")
		extra := []string{fmt.Sprintf("(declare-const %s Loc)", sk)}
		inM := ms.inSet(k, sk)
		goal := fmt.Sprintf("(=> (and (not (= (base %s) 0)) (< (base %s) %s) %s) (= (select %s %s) (select %s %s)))", sk, sk, a0, not(inM), hr, sk, h0, sk)
		if isRelComp(k) {
			goal = fmt.Sprintf("(or %s (= %s %s))", inM, hr, h0)
		}
		c.obligeNamed("frame", "frame."+sanitize(k)+suffix, goal, reach, "frame: heap component "+k+" unchanged outside modifies", extra)
	}
}

// havocAll: effect of an unmodelled call: every component unknown afterwards.
func (c *FnVC) havocAll(why string) {
	c.havocs = append(c.havocs, why)
	c.havocComp("alloc", "", "", "")
	ap := c.allocTerm()
	for _, k := range c.allComps() {
		c.havocComp(k, "true", "", ap)
	}
}

func (c *FnVC) allComps() []string {
	ks := append([]string{}, allKinds...)
	ks = append(ks, c.te.mapComps()...)
	return ks
}

// applySplits replaces every obligation by one per case of the contract's split conditions.
func (c *FnVC) applySplits() {
	if c.ct != nil && len(c.ct.Claims) > 0 {
		if (len(c.ct.Ensures) > 0 && !inList(c.ct.Claims, "ensures")) || !c.ct.ModAll {
			c.errorf("%s: a partially claimed function (claims ...) may not promise its callers anything it does not prove: ensures only if the class ensures is claimed, modifies all", c.fnName())
		}
		// obligations whose statement is ASSUMED further down the path (callee preconditions,
		// loop invariants, at-call assertions) can never be left out: everything claimed
		// after them would rest on an unproved assumption
		claims := append([]string{"pre", "inv", "at"}, c.ct.Claims...)
		var keep []*Obligation
		for _, o := range c.obls {
			if o.Class == "vacuity" || inList(claims, o.Class) {
				keep = append(keep, o)
			}
		}
		c.havocs = append(c.havocs, fmt.Sprintf("PARTIAL CLAIM: only obligations of the classes %v (plus pre, inv, at, which are always kept because they are assumed further down the path) are generated for this function (%d of %d); its other obligations are not discharged and not claimed", c.ct.Claims, len(keep), len(c.obls)))
		c.obls = keep
	}
	if len(c.splitNames) == 0 {
		return
	}
	cur := c.obls
	for _, sn := range c.splitNames {
		var next []*Obligation
		for _, o := range cur {
			if o.Class == "vacuity" || o.Goal == "true" {
				next = append(next, o)
				continue
			}
			a, b := *o, *o
			a.Name, a.Guard = o.Name+"|"+sn, and(o.Guard, sn)
			b.Name, b.Guard = o.Name+"|not_"+sn, and(o.Guard, not(sn))
			next = append(next, &a, &b)
		}
		cur = next
	}
	c.obls = cur
}
