#!/usr/bin/env python3
"""seeded/catches.json from seeded/RESULTS.md (last run per seed and property wins)."""
import re,json,collections
last={}
for l in open('/verif/seeded/RESULTS.md'):
    m=re.match(r'(\d\d:\d\d) (\S+) (C\d\d): exit=(\d+) violations=(\d+)\s*(.*)',l)
    if not m: continue
    t,seed,prop,rc,nv,rest=m.groups()
    last[(seed,prop)]=(int(rc),int(nv),rest)
out=collections.defaultdict(dict)
for (seed,prop),(rc,nv,rest) in sorted(last.items()):
    if rc==1 and nv>0:
        ob=re.search(r'obligation=(\S+)',rest)
        out[prop][seed]="CAUGHT ("+(ob.group(1) if ob else '?')+(f" +{nv-1} more" if nv>1 else "")+")"
    elif rc==0:
        out[prop][seed]="missed"
    else:
        out[prop][seed]="not run (machinery error at the time)"
json.dump(out,open('/verif/seeded/catches.json','w'),indent=1,sort_keys=True)
c=sum(1 for p in out.values() for v in p.values() if v.startswith('CAUGHT')); m=sum(1 for p in out.values() for v in p.values() if v=='missed')
print(f"caught {c}, missed {m}")
for p in sorted(out):
    print(p, out[p])
