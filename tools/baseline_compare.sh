#!/bin/bash
# baseline_compare.sh [repo dir]: runs the repository's test suite with the verif guard OFF
# (plain go test, no -tags verif) and reports every test of BASELINE.json's stable_pass list
# that does not pass now. Exit 0 iff none is missing.
export GOFLAGS=-mod=mod GOPROXY=off GOSUMDB=off GOTOOLCHAIN=local
export PATH=/opt/veriftools/go1.26.8/bin:$PATH
repo=${1:-/repo}
out=$(mktemp /tmp/baseline.XXXXXX.json)
(cd "$repo" && go test -json -vet=off -count=1 -timeout 25m ./... > "$out" 2>/dev/null)
python3 - "$out" <<'EOF'
import json,sys
passed=set()
for l in open(sys.argv[1]):
    try: e=json.loads(l)
    except Exception: continue
    if e.get('Action')=='pass' and e.get('Test'):
        passed.add(e['Package']+'::'+e['Test'])
base=json.load(open('/root/.vp/BASELINE.json'))['stable_pass']
missing=[t for t in base if t not in passed]
print(f"baseline stable_pass={len(base)} passing_now={len(passed)} missing={len(missing)}")
for t in missing[:40]: print("  MISSING", t)
sys.exit(1 if missing else 0)
EOF
rc=$?
rm -f "$out"
exit $rc
