#!/bin/bash
# seedrun.sh [-j N] <seed names...>: development helper. Runs the quick check of each seeded
# change's property against a scratch worktree of /repo with the change applied (so /repo
# itself is not touched and several seeds can run side by side). Evidence of these runs goes
# to a scratch directory, never to /verif/evidence. One line per run is appended to
# seeded/RESULTS.md. (The sanctioned sequential way - apply to /repo, ./check, undo - is
# tools/run_seeds.sh; both run the same checker on the same code.)
export GOFLAGS=-mod=mod GOPROXY=off GOSUMDB=off GOTOOLCHAIN=local
export PATH=/opt/veriftools/go1.26.8/bin:$PATH
J=2
if [ "$1" = "-j" ]; then J=$2; shift 2; fi
cd /verif
one() {
  n=$1
  d=/verif/seeded/$n
  [ -f $d/patch.diff ] || return
  prop=$(python3 -c "import json;print(json.load(open('$d/meta.json'))['property'])")
  props="$prop $(cat $d/also.txt 2>/dev/null)"
  wt=/tmp/seedwt/$n; sv=/tmp/seedverif/$n
  rm -rf $wt $sv; git -C /repo worktree prune
  git -C /repo worktree add -q --detach $wt HEAD || { echo "$n: worktree failed"; return; }
  (cd $wt && git apply $d/patch.diff) || { echo "$n: patch does not apply" >> /verif/seeded/RESULTS.md; git -C /repo worktree remove --force $wt; return; }
  mkdir -p $sv/evidence/replays
  # committed state of /verif (helpers may be editing the working copy)
  git -C /verif archive HEAD specs extern props known_findings.txt audit | tar -x -C $sv
  for p in $props; do
    [ -f props/$p.json ] || { echo "$n $p: property not claimed" >> /verif/seeded/RESULTS.md; continue; }
    # modular verification: only the functions defined in the touched files can be affected
    only=$(grep '^+++ b/' $d/patch.diff | sed 's|^+++ b/|/|' | tr '\n' ',' | sed 's/,$//')
    [ -n "$SEED_FULL" ] && only=""
    out=$(VERIF_ONLY_FILES="$only" /verif/bin/govc check -repo $wt -verif $sv -prop $p -tier quick 2>&1); rc=$?
    echo "$out" | grep -q 'no obligations generated' && { echo "$(date +%H:%M) $n $p: exit=0 violations=0 (no function of the touched files is under contract for $p)" >> /verif/seeded/RESULTS.md; continue; }
    nviol=$(echo "$out" | grep -c '^VIOLATION')
    first=$(echo "$out" | grep '^VIOLATION' | head -3 | sed 's/replay=[^ ]* //' | tr '\n' ';')
    [ $rc -ge 2 ] && first="$(echo "$out" | tail -2 | tr '\n' ' ' | cut -c1-300)"
    echo "$(date +%H:%M) $n $p: exit=$rc violations=$nviol $first" >> /verif/seeded/RESULTS.md
  done
  git -C /repo worktree remove --force $wt; rm -rf $sv
}
export -f one
printf '%s\n' "$@" | xargs -P $J -I{} bash -c 'one {}'
