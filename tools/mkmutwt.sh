#!/bin/bash
# mkmutwt.sh <id>...: scratch worktrees /tmp/mut/<id> of /repo HEAD for the mutant-writing helpers, with the
# verification contract files removed (committed inside the detached worktree) so that nothing of /verif's
# knowledge is visible there.
for id in "$@"; do
  d=/tmp/mut/$id
  rm -rf $d; git -C /repo worktree prune
  git -C /repo worktree add -q --detach $d HEAD || continue
  (cd $d && find . -name 'zz_verif_contracts*' -delete && git -c user.name=x -c user.email=x@x commit -qam "scratch: without verification contract files" )
  echo "$d ready"
done
