#!/bin/sh
# run_seeds.sh [seed names...]: apply each seeded change to /repo, run the quick check of
# its property (and of the extra properties given in seeded/<name>/also.txt), undo it.
# Appends one line per run to seeded/RESULTS.md.
cd /verif
names="$@"; [ -z "$names" ] && names="$(ls seeded | grep -v RESULTS)"
for n in $names; do
  d=seeded/$n
  [ -f $d/patch.diff ] || continue
  prop=$(python3 -c "import json;print(json.load(open('$d/meta.json'))['property'])")
  props="$prop $(cat $d/also.txt 2>/dev/null)"
  git -C /repo apply $d/patch.diff || { echo "$n: patch does not apply" >> seeded/RESULTS.md; continue; }
  for p in $props; do
    [ -f props/$p.json ] || { echo "$n $p: property not claimed" >> seeded/RESULTS.md; continue; }
    out=$(./check $p 2>&1); rc=$?
    nviol=$(echo "$out" | grep -c '^VIOLATION')
    first=$(echo "$out" | grep '^VIOLATION' | head -2 | sed 's/replay=[^ ]* //' | tr '\n' ';')
    echo "$n $p: exit=$rc violations=$nviol $first" >> seeded/RESULTS.md
  done
  git -C /repo checkout -- . 
done
tail -40 seeded/RESULTS.md
