#!/usr/bin/env python3
"""explain.py file.smt2 [-q]: candidate counter-model of a failed obligation.
Drops quantified axioms unless -q, asks z3 for the values of all named symbols."""
import re,subprocess,sys
f=sys.argv[1]; keepq='-q' in sys.argv
src=open(f).read().split('\n')
lines=[l for l in src if l!='(get-model)' and (keepq or not l.startswith('(assert (forall'))]
names=[]
for l in lines:
    m=re.match(r'\((?:define-fun|declare-const) ([^ ]+) (?:\(\) )?(.*)',l)
    if m and re.match(r'(v_|reach_|p_|ret|phi_|r_|edge_|back_|mod_|loopmod_|app|copyn|H_alloc)',m.group(1)):
        if '(Array' in l.split(m.group(1),1)[1][:60]: continue
        names.append(m.group(1))
q='\n'.join(lines)+'\n(get-value (%s))\n'%' '.join(names)
out=subprocess.run(['z3-new','-in','-T:30'],input=q,capture_output=True,text=True).stdout
print(out[:200000])
