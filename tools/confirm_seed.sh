#!/bin/sh
# confirm_seed.sh <seed dir with patch.diff, zz_demo_test.go, demo_pkg.txt> <name>
# Confirms in a scratch worktree of /repo: demo passes without the patch, fails with it,
# the package's own tests still pass with it, everything builds. Prints one summary line.
export GOFLAGS=-mod=mod GOPROXY=off GOSUMDB=off GOTOOLCHAIN=local
export PATH=/opt/veriftools/go1.26.8/bin:$PATH
src="$1"; name="$2"
wt="/tmp/seedconfirm/$name"
rm -rf "$wt"; git -C /repo worktree prune
git -C /repo worktree add -q --detach "$wt" HEAD || { echo "$name worktree-failed"; exit 1; }
pkg="$(cat "$src/demo_pkg.txt" | tr -d '\n ')"
cd "$wt"
cp "$src/zz_demo_test.go" "$wt/$pkg/zz_demo_test.go"
base_demo=FAIL; go test -vet=off -count=1 -run 'TestDemo' "./$pkg" >/tmp/seedconfirm/$name.base.log 2>&1 && base_demo=PASS
applied=no; git apply "$src/patch.diff" 2>/tmp/seedconfirm/$name.apply.log && applied=yes
build=FAIL; go build ./... >/tmp/seedconfirm/$name.build.log 2>&1 && build=OK
pat_demo=PASS; go test -vet=off -count=1 -run 'TestDemo' "./$pkg" >/tmp/seedconfirm/$name.pat.log 2>&1 || pat_demo=FAIL
rm -f "$wt/$pkg/zz_demo_test.go"
touched="$(git diff --name-only | xargs -n1 dirname | sort -u | sed 's|^|./|' | tr '\n' ' ')"
suite=PASS; go test -vet=off -count=1 $touched >/tmp/seedconfirm/$name.suite.log 2>&1 || suite=FAIL
# failures other than the baseline's always-failing network tests
unexpected=$(grep -E '^--- FAIL: ' /tmp/seedconfirm/$name.suite.log | awk '{print $3}' | grep -v -E '^(TestCipherSuitesBadSSL|TestTLSVersions|TestVerifyHostname|TestFetchRemote)$' | tr '\n' ',')
[ "$suite" = FAIL ] && [ -z "$unexpected" ] && ! grep -q -E '^(FAIL|---).*\[build failed\]|panic:' /tmp/seedconfirm/$name.suite.log && suite="PASS(only-baseline-network-failures)"
cd /; git -C /repo worktree remove --force "$wt"
echo "$name applied=$applied build=$build demo_without_patch=$base_demo demo_with_patch=$pat_demo touched_pkg_tests=$suite unexpected_failures=[$unexpected] touched=$touched"
