#!/bin/bash
# keys.sh <contract file>... : prints a -func / props regexp alternation of the functions contracted in the files
for f in "$@"; do
  pkg=$(dirname "$f" | sed 's|^/repo/||')
  names=$(grep -E '^//@ func ' "$f" | sed -E 's#^//@ func +##; s#[[:space:]]+$##' | python3 -c "
import sys,re
print('|'.join(re.escape(l.strip()) for l in sys.stdin if l.strip()))")
  echo "github.com/zmap/zcrypto/$pkg::($names)"
done
