#!/bin/bash
# import_mut.sh <prop>...: imports /tmp/mutout/<prop>/{A,B} as seeded/<prop>A, <prop>B (or C, D when A/B exist),
# confirms each in a scratch worktree (tools/confirm_seed.sh) and writes meta.json.
cd /verif
for p in "$@"; do
  for v in A B; do
    src=/tmp/mutout/$p/$v
    [ -f $src/patch.diff ] || { echo "$p$v: no patch"; continue; }
    name=$p$v
    if [ -d seeded/$name ] && ! cmp -s seeded/$name/patch.diff $src/patch.diff; then
      case $v in A) name=${p}C;; B) name=${p}D;; esac
    fi
    mkdir -p seeded/$name
    cp $src/patch.diff $src/zz_demo_test.go $src/demo_pkg.txt $src/notes.md seeded/$name/ 2>/dev/null
    res=$(tools/confirm_seed.sh /verif/seeded/$name $name 2>&1 | tail -1)
    python3 - "$name" "$p" "$v" "$res" <<'PY'
import json,sys
name,p,v,res=sys.argv[1:5]
d=f'/verif/seeded/{name}'
patch=open(d+'/patch.diff').read()
summ='\n'.join(l for l in patch.split('\n') if (l.startswith('+') or l.startswith('-')) and not l.startswith('+++') and not l.startswith('---'))[:400]
json.dump({"property":p,"variant":v,"breaks":"see notes.md","what_it_needs_to_manifest":"see notes.md (written by the sub-agent that produced the change, which saw only the property text and a scratch worktree without the contract files)","summary":summ,"confirmed_by_me":res,"confirmation_cmd":f"/verif/tools/confirm_seed.sh /verif/seeded/{name} {name}  (scratch worktree of /repo: demo passes without the patch, fails with it; package tests of the touched packages still pass apart from the baseline's network tests)","detected_by":"see seeded/RESULTS.md and DESIGN.md section 9a"},open(d+'/meta.json','w'),indent=1)
PY
    echo "$res"
  done
done
