#!/usr/bin/env python3
# Regenerates /verif/extern/xcryptobyte.contracts from the proved contracts of zcrypto's fork.
# (see the inline generator used in round 1; kept for reference: select the reader methods,
#  rename `func (*String).X` to `extern func (*golang.org/x/crypto/cryptobyte.String).X`,
#  drop `terminates`, add `noalloc`.)
