#!/usr/bin/env python3
"""Regenerates /verif/MANIFEST.json from props/*.json (claimed properties) and tools/na.json."""
import json,glob,os,subprocess
V='/verif'
ids=[json.loads(l)["id"] for l in open(f'{V}/properties.jsonl')]
na=json.load(open(f'{V}/tools/na.json'))
pending=json.load(open(f'{V}/tools/pending.json')) if os.path.exists(f'{V}/tools/pending.json') else []
checks=[];claimed=set()
for f in sorted(glob.glob(f'{V}/props/C*.json')):
    p=json.load(open(f)); i=p['id']
    if i in pending: continue
    claimed.add(i)
    checks.append({
      "property_id":i,
      "quick_cmd":f"./check {i} --tier quick",
      "thorough_cmd":f"./check {i} --tier thorough",
      "evidence_file":f"/verif/evidence/{i}.json",
      "replay_cmd_template":f"./check {i} --replay {{path}}",
      "engine":"govc",
      "level_claimed":{"category":"proof","text":p.get("level_text",""),"design_ref":p.get("design_ref","DESIGN.md §10 "+i)},
      "level_note":p.get("level_note",""),
      "technique":p.get("technique","contract-based deductive verification: weakest-precondition VCs generated from go/ssa of the real functions, discharged by z3/cvc5")})
hooks=subprocess.run(['git','-C','/repo','log','--format=%h %s'],capture_output=True,text=True).stdout.strip().split('\n')
hook_commits=[l.split()[0] for l in hooks if 'verif hook' in l]
m={"version":1,"setup_cmd":"./setup.sh",
 "hooks":{"guard":"verif","enable":"contracts live in comment-only files <pkg>/zz_verif_contracts.go guarded by //go:build verif; govc loads /repo with -tags verif",
   "baseline_off_cmd":"cd /repo && GOTOOLCHAIN=local GOFLAGS=-mod=mod GOPROXY=off GOSUMDB=off PATH=/opt/veriftools/go1.26.8/bin:$PATH go test -json -vet=off -count=1 -timeout 25m ./...",
   "source_commits":hook_commits,"add_only":True},
 "engines":[{"name":"govc","path":"/verif/govc","serves_properties":sorted(claimed),"kind_free_text":"own deductive verifier for Go: contracts as //@ comments on the real functions, VC generation over go/ssa (bit-vector integers, Loc-datatype heap), obligations discharged by z3 5.1 / cvc5 / z3 4.8"}],
 "checks":checks,
 "notes":"See DESIGN.md. Fixes to /repo: see known_findings.txt (fixed: lines).",
 "not_applicable":[{"property_id":i,"reason":na.get(i,"check being stabilised in this round, not claimed yet (plan: DESIGN.md §10 "+i+")" if i in pending else "check not built yet in this round (plan: DESIGN.md §10)")} for i in ids if i not in claimed]}
json.dump(m,open(f'{V}/MANIFEST.json','w'),indent=1)
print("claimed:",sorted(claimed))
